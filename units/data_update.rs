// unit `data_update` : in-place updates of P, q, A, b and their propagation into the KKT / LDL copies (C08)
// float model: F-opaque (new values are copied and multiplied symbolically)
use vstd::prelude::*;
verus! {
//@include prelude/float_opaque.rs
//@include prelude/vecmath_assumed.rs
//@include prelude/std_assumed.rs
//@include units/inc/csc_scalings.rs
//@enum file=src/algebra/error_types.rs name=SparseFormatError rules=R12 derive="PartialEq, Eq, Clone, Copy, Structural"
//@enum file=src/solver/implementations/default/data_updating.rs name=DataUpdateError rules=R12
// #[from] on DataUpdateError::BadFormat (thiserror) expands to this conversion
impl vstd::std_specs::convert::FromSpecImpl<SparseFormatError> for DataUpdateError {
    open spec fn obeys_from_spec() -> bool { true }
    open spec fn from_spec(e: SparseFormatError) -> DataUpdateError { DataUpdateError::BadFormat(e) }
}
impl From<SparseFormatError> for DataUpdateError {
    fn from(e: SparseFormatError) -> (r: DataUpdateError) { DataUpdateError::BadFormat(e) }
}

// the scaled value the solver stores for a user value v at a position with row / column scalings lr, rc
pub open spec fn scaled_entry(v: F, lr: F, rc: F, c: Option<F>) -> F {
    match c { Some(cc) => f_mul(f_mul(v, f_mul(lr, rc)), cc), None => f_mul(v, f_mul(lr, rc)) }
}
pub open spec fn scaled_elem(v: F, s: F, c: Option<F>) -> F {
    match c { Some(cc) => f_mul(f_mul(v, s), cc), None => f_mul(v, s) }
}
pub open spec fn matrix_ok(M: CscMatrix<F>, l: Seq<F>, r: Seq<F>) -> bool {
    M.colptr_ok() && r.len() == M.n && (forall|k: int| 0 <= k < M.rowval@.len() ==> M.rowval@[k] < l.len())
}

// ------------------------------------------------------------------ the two update traits (signatures from the source)
//@trait file=src/solver/implementations/default/data_updating.rs name=MatrixProblemDataUpdate header="pub trait MatrixProblemDataUpdate<T>" rules=R1
//@extra
    // abstract reading of an update object: is it a no-op, does it fit M, and the new (unscaled) value for slot k
    spec fn is_noop(&self, M: CscMatrix<F>) -> bool;
    spec fn fits(&self, M: CscMatrix<F>) -> bool;
    spec fn new_value(&self, k: int) -> F;
//@sig update_matrix
ret=res
    requires matrix_ok(*old(M), lscale@, rscale@),
    ensures
        final(M).same_pattern(old(M)),
        // C08: empty updates are no-ops
        self.is_noop(*old(M)) ==> res is Ok && final(M).nzval@ == old(M).nzval@,
        // C08: rejected whole-vector / matrix updates leave the data untouched
        !self.is_noop(*old(M)) && !self.fits(*old(M)) ==> res is Err && final(M).nzval@ == old(M).nzval@,
        // C08: an accepted update stores  lscale[row] * rscale[col] * (c) * value  in every slot
        !self.is_noop(*old(M)) && self.fits(*old(M)) ==> res is Ok && forall|k: int, j: int| #[trigger] old(M).in_col(k, j) ==>
            final(M).nzval@[k] == scaled_entry(self.new_value(k), lscale@[old(M).rowval@[k] as int], rscale@[j], cscale),
//@end
//@trait file=src/solver/implementations/default/data_updating.rs name=VectorProblemDataUpdate header="pub trait VectorProblemDataUpdate<T>" rules=R1
//@extra
    spec fn is_noop(&self) -> bool;
    spec fn fits(&self, n: nat) -> bool;
    spec fn new_value(&self, k: int) -> F;
//@sig update_vector
ret=res
    requires vscale@.len() == old(v)@.len(),
    ensures
        final(v)@.len() == old(v)@.len(),
        self.is_noop() ==> res is Ok && final(v)@ == old(v)@,
        !self.is_noop() && !self.fits(old(v)@.len()) ==> res is Err && final(v)@ == old(v)@,
        !self.is_noop() && self.fits(old(v)@.len()) ==> res is Ok && forall|k: int| 0 <= k < old(v)@.len() ==>
            #[trigger] final(v)@[k] == scaled_elem(self.new_value(k), vscale@[k], cscale),
//@end

impl CscMatrix<F> {
//@fn file=src/algebra/csc/core.rs in="ShapedMatrix for CscMatrix<T>" name=size rules=R1 ret=r
//@contract
    ensures r == (self.m, self.n)
//@end
//@fn file=src/algebra/csc/core.rs in="impl<T> CscMatrix<T>" name=check_equal_sparsity rules=R1,R16:self.colptr~other.colptr|self.rowval~other.rowval ret=r
//@contract
    ensures
        r is Ok <==> (self.m == other.m && self.n == other.n && self.colptr@ == other.colptr@ && self.rowval@ == other.rowval@),
        r matches Err(e) ==> (e == SparseFormatError::IncompatibleDimension <==> !(self.m == other.m && self.n == other.n)),
//@end
}
impl MatrixProblemDataUpdate<F> for CscMatrix<F> {
    open spec fn is_noop(&self, M: CscMatrix<F>) -> bool {
        self.m == M.m && self.n == M.n && self.colptr@ == M.colptr@ && self.rowval@ == M.rowval@ && self.nzval@.len() == 0
    }
    // C08: "matrices with matching pattern" (an empty matrix of the same pattern carries no values: accepted as a no-op)
    open spec fn fits(&self, M: CscMatrix<F>) -> bool {
        self.m == M.m && self.n == M.n && self.colptr@ == M.colptr@ && self.rowval@ == M.rowval@ && self.nzval@.len() == M.nzval@.len() && self.nzval@.len() > 0
    }
    open spec fn new_value(&self, k: int) -> F { self.nzval@[k] }
//@fn file=src/solver/implementations/default/data_updating.rs in="MatrixProblemDataUpdate<T> for CscMatrix<T>" name=update_matrix rules=R1
//@end
}

// ------------------------------------------------------------------ implementations for slices, vectors, [T;0], matrices
impl MatrixProblemDataUpdate<F> for [F] {
    open spec fn is_noop(&self, M: CscMatrix<F>) -> bool { self@.len() == 0 }
    open spec fn fits(&self, M: CscMatrix<F>) -> bool { self@.len() == M.nzval@.len() }
    open spec fn new_value(&self, k: int) -> F { self@[k] }
//@fn file=src/solver/implementations/default/data_updating.rs in="MatrixProblemDataUpdate<T> for [T]" name=update_matrix rules=R1
//@before "M.lrscale(lscale, rscale)"
        let ghost M1 = *M;
//@after "M.lrscale(lscale, rscale)"
        let ghost M2 = *M;
//@after "if let Some(c) = cscale"
        proof {
            assert forall|k: int, j: int| #[trigger] old(M).in_col(k, j) implies
                M.nzval@[k] == scaled_entry(self@[k], lscale@[old(M).rowval@[k] as int], rscale@[j], cscale) by {
                assert(M1.in_col(k, j));
                assert(M1.nzval@[k] == self@[k]);
            }
        }
//@end
}
impl MatrixProblemDataUpdate<F> for Vec<F> {
    open spec fn is_noop(&self, M: CscMatrix<F>) -> bool { self@.len() == 0 }
    open spec fn fits(&self, M: CscMatrix<F>) -> bool { self@.len() == M.nzval@.len() }
    open spec fn new_value(&self, k: int) -> F { self@[k] }
//@fn file=src/solver/implementations/default/data_updating.rs in="MatrixProblemDataUpdate<T> for Vec<T>" name=update_matrix rules=R1
//@end
}
impl MatrixProblemDataUpdate<F> for [F; 0] {
    open spec fn is_noop(&self, M: CscMatrix<F>) -> bool { true }
    open spec fn fits(&self, M: CscMatrix<F>) -> bool { true }
    open spec fn new_value(&self, k: int) -> F { f_zero() }
//@fn file=src/solver/implementations/default/data_updating.rs in="MatrixProblemDataUpdate<T> for [T; 0]" name=update_matrix rules=R1
//@end
}
impl VectorProblemDataUpdate<F> for [F] {
    open spec fn is_noop(&self) -> bool { self@.len() == 0 }
    open spec fn fits(&self, n: nat) -> bool { self@.len() == n }
    open spec fn new_value(&self, k: int) -> F { self@[k] }
//@fn file=src/solver/implementations/default/data_updating.rs in="VectorProblemDataUpdate<T> for [T]" name=update_vector rules=R1
//@end
}
impl VectorProblemDataUpdate<F> for Vec<F> {
    open spec fn is_noop(&self) -> bool { self@.len() == 0 }
    open spec fn fits(&self, n: nat) -> bool { self@.len() == n }
    open spec fn new_value(&self, k: int) -> F { self@[k] }
//@fn file=src/solver/implementations/default/data_updating.rs in="VectorProblemDataUpdate<T> for Vec<T>" name=update_vector rules=R1
//@end
}
impl VectorProblemDataUpdate<F> for [F; 0] {
    open spec fn is_noop(&self) -> bool { true }
    open spec fn fits(&self, n: nat) -> bool { true }
    open spec fn new_value(&self, k: int) -> F { f_zero() }
//@fn file=src/solver/implementations/default/data_updating.rs in="VectorProblemDataUpdate<T> for [T; 0]" name=update_vector rules=R1
//@end
}

// ------------------------------------------------------------------ the solver-level entry points
//@struct file=src/solver/implementations/default/equilibration.rs name=DefaultEquilibrationData
// stand-ins for solver components these functions do not look into
pub struct Presolver<T> { pub _p: Option<T> }
pub struct DefaultVariables<T> { pub _p: Option<T> }
pub struct DefaultResiduals<T> { pub _p: Option<T> }
pub struct CompositeCone<T> { pub _p: Option<T> }
pub struct DefaultInfo<T> { pub _p: Option<T> }
pub struct DefaultSolution<T> { pub _p: Option<T> }
pub struct DefaultSettings<T> { pub _p: Option<T> }
pub struct Timers { pub _p: u8 }
// stand-in for DefaultKKTSystem: the ghost fields abstract "the copies of P / A values held inside the KKT matrix";
// update_P / update_A are ASSUMED to refresh them (the index-map mechanics are under contract separately: _update_values_KKT)
pub struct DefaultKKTSystem<T> { pub kkt_P: Ghost<Seq<T>>, pub kkt_A: Ghost<Seq<T>> }
impl DefaultKKTSystem<F> {
    #[verifier::external_body]
    pub fn update_P(&mut self, P: &CscMatrix<F>) ensures final(self).kkt_P@ == P.nzval@, final(self).kkt_A@ == old(self).kkt_A@ { unimplemented!() }
    #[verifier::external_body]
    pub fn update_A(&mut self, A: &CscMatrix<F>) ensures final(self).kkt_A@ == A.nzval@, final(self).kkt_P@ == old(self).kkt_P@ { unimplemented!() }
}
//@struct file=src/solver/implementations/default/problemdata.rs name=DefaultProblemData keep=P,q,A,b,n,m,equilibration,normq,normb,presolver
//@struct file=src/solver/core/solver.rs name=Solver
//@type file=src/solver/implementations/default/solver.rs name=DefaultSolver

impl DefaultProblemData<F> {
//@fn file=src/solver/implementations/default/problemdata.rs in="impl<T> DefaultProblemData<T>" name=is_presolved rules=R1 ret=r
//@contract
    ensures r == (self.presolver is Some)
//@end
//@fn file=src/solver/implementations/default/problemdata.rs in="impl<T> DefaultProblemData<T>" name=clear_normq rules=R1
//@contract
    ensures *final(self) == (DefaultProblemData::<F> { normq: None, ..*old(self) }),
//@end
//@fn file=src/solver/implementations/default/problemdata.rs in="impl<T> DefaultProblemData<T>" name=clear_normb rules=R1
//@contract
    ensures *final(self) == (DefaultProblemData::<F> { normb: None, ..*old(self) }),
//@end
}

// everything in the solver except the named data field is untouched
pub open spec fn only_P_changed(a: DefaultSolver<F>, b: DefaultSolver<F>) -> bool {
    a.data == (DefaultProblemData::<F> { P: a.data.P, ..b.data }) && a.variables == b.variables && a.settings == b.settings
}
pub open spec fn only_A_changed(a: DefaultSolver<F>, b: DefaultSolver<F>) -> bool {
    a.data == (DefaultProblemData::<F> { A: a.data.A, ..b.data }) && a.variables == b.variables && a.settings == b.settings
}

impl DefaultSolver<F> {
//@fn file=src/solver/implementations/default/data_updating.rs in="impl<T> DefaultSolver<T>" name=check_data_update_allowed rules=R1,R12 ret=r
//@contract
    ensures
        // C08: "Rejected updates (... presolve ... active) return an error"
        r is Ok <==> self.data.presolver is None,
        r matches Err(e) ==> e == DataUpdateError::PresolveIsActive,
//@end
//@fn file=src/solver/implementations/default/data_updating.rs in="impl<T> DefaultSolver<T>" name=is_data_update_allowed rules=R1 ret=r
//@contract
    ensures r == (self.data.presolver is None)
//@end
//@fn file=src/solver/implementations/default/data_updating.rs in="impl<T> DefaultSolver<T>" name=update_P rules=R1 ret=res
//@contract
    requires matrix_ok(old(self).data.P, old(self).data.equilibration.d@, old(self).data.equilibration.d@),
    ensures
        old(self).data.presolver is Some ==> res is Err && *final(self) == *old(self),
        old(self).data.presolver is None ==> {
            let d = old(self).data.equilibration.d@; let c = old(self).data.equilibration.c; let P0 = old(self).data.P;
            &&& only_P_changed(*final(self), *old(self)) && final(self).data.P.same_pattern(&P0)
            &&& (res is Ok <==> (data.is_noop(P0) || data.fits(P0)))
            &&& (res is Err ==> final(self).data.P.nzval@ == P0.nzval@ && final(self).kktsystem == old(self).kktsystem)
            &&& (data.is_noop(P0) ==> final(self).data.P.nzval@ == P0.nzval@)
            // C08: internal P = c * D * P_new * D, entry for entry, and the KKT copy is refreshed from it
            &&& (!data.is_noop(P0) && data.fits(P0) ==> forall|k: int, j: int| #[trigger] P0.in_col(k, j) ==>
                    final(self).data.P.nzval@[k] == scaled_entry(data.new_value(k), d[P0.rowval@[k] as int], d[j], Some(c)))
            &&& (res is Ok ==> final(self).kktsystem.kkt_P@ == final(self).data.P.nzval@ && final(self).kktsystem.kkt_A@ == old(self).kktsystem.kkt_A@)
        },
//@end
//@fn file=src/solver/implementations/default/data_updating.rs in="impl<T> DefaultSolver<T>" name=update_A rules=R1 ret=res
//@contract
    requires matrix_ok(old(self).data.A, old(self).data.equilibration.e@, old(self).data.equilibration.d@),
    ensures
        old(self).data.presolver is Some ==> res is Err && *final(self) == *old(self),
        old(self).data.presolver is None ==> {
            let d = old(self).data.equilibration.d@; let e = old(self).data.equilibration.e@; let A0 = old(self).data.A;
            &&& only_A_changed(*final(self), *old(self)) && final(self).data.A.same_pattern(&A0)
            &&& (res is Ok <==> (data.is_noop(A0) || data.fits(A0)))
            &&& (res is Err ==> final(self).data.A.nzval@ == A0.nzval@ && final(self).kktsystem == old(self).kktsystem)
            &&& (data.is_noop(A0) ==> final(self).data.A.nzval@ == A0.nzval@)
            // C08: internal A = E * A_new * D, entry for entry (no objective scaling), KKT copy refreshed
            &&& (!data.is_noop(A0) && data.fits(A0) ==> forall|k: int, j: int| #[trigger] A0.in_col(k, j) ==>
                    final(self).data.A.nzval@[k] == scaled_entry(data.new_value(k), e[A0.rowval@[k] as int], d[j], None))
            &&& (res is Ok ==> final(self).kktsystem.kkt_A@ == final(self).data.A.nzval@ && final(self).kktsystem.kkt_P@ == old(self).kktsystem.kkt_P@)
        },
//@end
//@fn file=src/solver/implementations/default/data_updating.rs in="impl<T> DefaultSolver<T>" name=update_q rules=R1 ret=res
//@contract
    requires old(self).data.equilibration.d@.len() == old(self).data.q@.len(),
    ensures
        old(self).data.presolver is Some ==> res is Err && *final(self) == *old(self),
        old(self).data.presolver is None ==> {
            let d = old(self).data.equilibration.d@; let c = old(self).data.equilibration.c; let q0 = old(self).data.q@;
            &&& final(self).kktsystem == old(self).kktsystem && final(self).data.P == old(self).data.P && final(self).data.A == old(self).data.A
            &&& final(self).data.b == old(self).data.b && final(self).data.equilibration == old(self).data.equilibration && final(self).data.normb == old(self).data.normb
            &&& final(self).data.q@.len() == q0.len()
            &&& (res is Ok <==> (data.is_noop() || data.fits(q0.len())))
            &&& (res is Err ==> final(self).data.q@ == q0 && final(self).data.normq == old(self).data.normq)
            &&& (data.is_noop() ==> final(self).data.q@ == q0)
            // C08: internal q = c * D * q_new; the cached unscaled norm is invalidated so the next solve recomputes it
            &&& (!data.is_noop() && data.fits(q0.len()) ==> forall|k: int| 0 <= k < q0.len() ==>
                    #[trigger] final(self).data.q@[k] == scaled_elem(data.new_value(k), d[k], Some(c)))
            &&& (res is Ok ==> final(self).data.normq is None)
        },
//@end
//@fn file=src/solver/implementations/default/data_updating.rs in="impl<T> DefaultSolver<T>" name=update_b rules=R1 ret=res
//@contract
    requires old(self).data.equilibration.e@.len() == old(self).data.b@.len(),
    ensures
        old(self).data.presolver is Some ==> res is Err && *final(self) == *old(self),
        old(self).data.presolver is None ==> {
            let e = old(self).data.equilibration.e@; let b0 = old(self).data.b@;
            &&& final(self).kktsystem == old(self).kktsystem && final(self).data.P == old(self).data.P && final(self).data.A == old(self).data.A
            &&& final(self).data.q == old(self).data.q && final(self).data.equilibration == old(self).data.equilibration && final(self).data.normq == old(self).data.normq
            &&& final(self).data.b@.len() == b0.len()
            &&& (res is Ok <==> (data.is_noop() || data.fits(b0.len())))
            &&& (res is Err ==> final(self).data.b@ == b0 && final(self).data.normb == old(self).data.normb)
            &&& (data.is_noop() ==> final(self).data.b@ == b0)
            // C08: internal b = E * b_new; cached norm invalidated
            &&& (!data.is_noop() && data.fits(b0.len()) ==> forall|k: int| 0 <= k < b0.len() ==>
                    #[trigger] final(self).data.b@[k] == scaled_elem(data.new_value(k), e[k], None))
            &&& (res is Ok ==> final(self).data.normb is None)
        },
//@end
}

//@include units/inc/kkt_values.rs

} // verus!
fn main() {}
