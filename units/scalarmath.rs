// unit `scalarmath` : packed-triangle index maps used by the PSD / chordal code (C18, narrow) and clip (C10)
use vstd::prelude::*;
verus! {
global size_of usize == 8;

pub open spec fn tri(k: int) -> int { k * (k + 1) / 2 }

pub proof fn lemma_shr1(x: usize) ensures x >> 1 == x / 2 { assert(x >> 1 == x / 2) by (bit_vector); }

// k (k + 1) is even: by induction (asking the nonlinear solver for the parity directly depends on its random seed)
pub proof fn lemma_consec_even(k: int) requires k >= 0 ensures k * (k + 1) % 2 == 0 decreases k
{
    if k > 0 {
        lemma_consec_even(k - 1);
        assert(k * (k + 1) == (k - 1) * k + 2 * k) by (nonlinear_arith);
    } else {
        assert(k * (k + 1) == 0) by (nonlinear_arith) requires k == 0;
    }
}
pub proof fn lemma_tri_step(k: int) requires k >= 0 ensures tri(k + 1) == tri(k) + k + 1, tri(k) >= 0
{
    assert(k * (k + 1) >= 0) by (nonlinear_arith) requires k >= 0;
    assert((k + 1) * (k + 2) == k * (k + 1) + 2 * (k + 1)) by (nonlinear_arith);
    lemma_consec_even(k);
}
pub proof fn lemma_tri_mono(a: int, b: int) requires 0 <= a <= b ensures tri(a) <= tri(b) decreases b - a
{
    if a < b { lemma_tri_step(b - 1); lemma_tri_mono(a, b - 1); }
}
// uniqueness of the (row, col) decomposition of a packed index
pub proof fn lemma_tri_unique(c1: int, r1: int, c2: int, r2: int)
    requires 0 <= r1 <= c1, 0 <= r2 <= c2, tri(c1) + r1 == tri(c2) + r2,
    ensures c1 == c2, r1 == r2,
{
    if c1 < c2 { lemma_tri_step(c1); lemma_tri_mono(c1 + 1, c2); }
    if c2 < c1 { lemma_tri_step(c2); lemma_tri_mono(c2 + 1, c1); }
}

// ASSUMED contract of isqrt ((v as f64).sqrt() as usize): exact floor square root for v < 2^52.
// `as f64` is outside Verus.  The bound is 2^52, not the 2^53 "or so" of the source comment: a sampled Kani harness
// (isqrt_exact_around_sampled_squares) refuted the first version of this assumption at v = 2^52 + 2^27 = (2^26 + 1)^2 - 1, where the
// correctly rounded square root is exactly 2^26 + 1 (the distance to it is just under half an ulp) and the truncation is one too large.
// Below 2^52 the distance from sqrt(m^2 - 1) to m is 1/(2m) > 2^-27 >= a whole ulp of the numbers just below m <= 2^26, so no
// rounding reaches the next integer.
pub uninterp spec fn isqrt_spec(v: int) -> int;
#[verifier::external_body]
fn isqrt(v: usize) -> (r: usize)
    requires v < 0x10_0000_0000_0000,
    ensures r == isqrt_spec(v as int), r * r <= v < (r + 1) * (r + 1),
        // linear consequences of the line above (proved from it in lemma_isqrt_bounds), restated because the
        // overflow checks inside the calling expression cannot use nonlinear reasoning
        r < 0x1_0000_0000, v >= 9 ==> r >= 3,
{ unimplemented!() }
pub proof fn lemma_isqrt_bounds(r: int, v: int)
    requires 0 <= r, 0 <= v < 0x10_0000_0000_0000, r * r <= v < (r + 1) * (r + 1),
    ensures r < 0x1_0000_0000, v >= 9 ==> r >= 3,
{
    assert(r < 0x1_0000_0000) by (nonlinear_arith) requires r * r <= v, v < 0x10_0000_0000_0000, r >= 0;
    if v >= 9 { assert(r >= 3) by (nonlinear_arith) requires (r + 1) * (r + 1) > v, v >= 9, r >= 0; }
}

//@fn file=src/algebra/scalarmath.rs name=triangular_number ret=r
//@contract
    requires k < 0x1_0000_0000,
    ensures r == tri(k as int),
//@pre
    proof {
        assert(k * (k + 1) <= 0xffff_ffff * (k + 1)) by (nonlinear_arith) requires 0 <= k <= 0xffff_ffff;
        assert(k * (k + 1) >= 0) by (nonlinear_arith) requires 0 <= k;
        lemma_shr1((k * (k + 1)) as usize);
    }
//@end
//@fn file=src/algebra/scalarmath.rs name=triangular_index ret=r
//@contract
    requires k < 0x8000_0000,
    ensures r == tri(k as int + 1) - 1,
//@pre
    proof {
        assert(k * (k + 3) <= 0x7fff_ffff * (k + 3)) by (nonlinear_arith) requires 0 <= k <= 0x7fff_ffff;
        assert(k * (k + 3) >= 0) by (nonlinear_arith) requires 0 <= k;
        lemma_shr1((k * (k + 3)) as usize);
        lemma_tri_step(k as int);
        assert((k + 1) * (k + 2) == k * (k + 3) + 2) by (nonlinear_arith);
        lemma_consec_even(k as int);
    }
//@end

//@fn file=src/algebra/scalarmath.rs name=coord_to_upper_triangular_index ret=r
//@contract
    requires coord.0 < 0x8000_0000, coord.1 < 0x8000_0000,
    ensures
        // symmetric in (i, j); packed column-major upper triangle
        coord.0 <= coord.1 ==> r == tri(coord.1 as int) + coord.0,
        coord.0 > coord.1 ==> r == tri(coord.0 as int) + coord.1,
//@pre
    proof {
        let m = if coord.0 <= coord.1 { coord.1 as int } else { coord.0 as int };
        lemma_tri_mono(0, m);
        lemma_tri_mono(m, 0x7fff_ffff);
        assert(tri(0x7fff_ffff) == 0x1fff_ffff_c000_0000) by (compute);
    }
//@end

//@fn file=src/algebra/scalarmath.rs name=upper_triangular_index_to_coord ret=r
//@contract
    requires linearidx < 0x2_0000_0000_0000 - 1,
    ensures r.0 <= r.1, tri(r.1 as int) + r.0 == linearidx,
//@before "let col ="
    proof { assert(forall|x: usize| #[trigger] (x >> 1) == x / 2) by (bit_vector); }
//@after "let col ="
    proof {
        let v = 8 * linearidx + 1;
        let s = isqrt_spec(v as int);
        lemma_shr1((s + 1) as usize);
        let h = (s + 1) / 2;          // col == h - 1
        // v >= 9  =>  s >= 3  =>  h >= 2
        let c = h - 1;
        assert(col == c);
        // (2c+1)^2 <= s^2 <= v  and  (2c+3)^2 >= (s+1)^2 > v
        assert(2 * c + 1 <= s && 2 * c + 3 >= s + 1);
        assert((2 * c + 1) * (2 * c + 1) <= s * s) by (nonlinear_arith) requires 0 <= 2 * c + 1 <= s;
        assert((2 * c + 3) * (2 * c + 3) >= (s + 1) * (s + 1)) by (nonlinear_arith) requires 2 * c + 3 >= s + 1, s >= 0;
        assert((2 * c + 1) * (2 * c + 1) == 8 * tri(c) + 1) by {
            assert((2 * c + 1) * (2 * c + 1) == 4 * (c * (c + 1)) + 1) by (nonlinear_arith);
            lemma_consec_even(c);
        }
        assert((2 * c + 3) * (2 * c + 3) == 8 * tri(c + 1) + 1) by {
            assert((2 * c + 3) * (2 * c + 3) == 4 * ((c + 1) * (c + 2)) + 1) by (nonlinear_arith);
            lemma_consec_even(c + 1);
        }
        assert(tri(c) <= linearidx < tri(c + 1));
        lemma_tri_step(c);
    }
//@end

// the two maps are mutually inverse on { (i,j) : i <= j } x N
pub proof fn lemma_roundtrip(i: int, j: int, c: int, r: int)
    requires 0 <= i <= j, 0 <= r <= c, tri(j) + i == tri(c) + r,
    ensures i == r, j == c,
{ lemma_tri_unique(j, i, c, r); }

} // verus!
fn main() {}
