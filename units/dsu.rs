// unit `dsu` : the union-find structure behind the clique-graph merge (C17, narrow)
// abstract view: rep(x) = the representative (root) of x's class; the partition is { (x,y) : rep(x) == rep(y) }.
use vstd::prelude::*;
verus! {

//@struct file=src/solver/chordal/merge/disjoint_set_union.rs name=DisjointSetUnion

impl DisjointSetUnion {
    pub open spec fn n(&self) -> int { self.parents@.len() as int }

    // representation invariant: parents in range; union by rank (a non-root has a strictly smaller rank than its parent)
    pub open spec fn wf(&self) -> bool {
        &&& self.parents@.len() == self.ranks@.len()
        &&& forall|i: int| 0 <= i < self.n() ==> 0 <= #[trigger] self.parents@[i] < self.n()
        &&& forall|i: int| 0 <= i < self.n() && #[trigger] self.parents@[i] != i ==> self.ranks@[i] < self.ranks@[self.parents@[i] as int]
    }
    // rank budget (see union): all ranks <= b
    pub open spec fn ranks_le(&self, b: int) -> bool {
        forall|i: int| 0 <= i < self.n() ==> #[trigger] self.ranks@[i] <= b
    }

    // the representative of x: follow parent links to the root
    pub open spec fn rep(&self, x: int) -> int
        decreases (if self.wf() && 0 <= x < self.n() { usize::MAX - self.ranks@[x] } else { 0 }),
    {
        if !(self.wf() && 0 <= x < self.n()) { x }
        else if self.parents@[x] == x { x }
        else { self.rep(self.parents@[x] as int) }
    }

    pub proof fn lemma_rep(&self, x: int)
        requires self.wf(), 0 <= x < self.n(),
        ensures 0 <= self.rep(x) < self.n(), self.parents@[self.rep(x)] == self.rep(x),
                self.ranks@[x] <= self.ranks@[self.rep(x)],
                (self.rep(x) == x) == (self.parents@[x] == x),
                self.rep(self.rep(x)) == self.rep(x),
        decreases usize::MAX - self.ranks@[x],
    {
        if self.parents@[x] != x {
            self.lemma_rep(self.parents@[x] as int);
        }
    }

    // re-pointing x at a higher-ranked node g of the same class changes no representative
    pub proof fn lemma_relink(d1: Self, d2: Self, x: usize, g: usize, y: int)
        requires d1.wf(), 0 <= x < d1.n(), 0 <= g < d1.n(), 0 <= y < d1.n(),
            d2.parents@ == d1.parents@.update(x as int, g), d2.ranks@ == d1.ranks@,
            d1.rep(g as int) == d1.rep(x as int),
            d1.ranks@[g as int] > d1.ranks@[x as int] || (g == x && d1.parents@[x as int] == x),
        ensures d2.wf(), d2.rep(y) == d1.rep(y),
        decreases usize::MAX - d1.ranks@[y],
    {
        assert(d2.wf()) by {
            assert forall|i: int| 0 <= i < d2.n() && #[trigger] d2.parents@[i] != i implies d2.ranks@[i] < d2.ranks@[d2.parents@[i] as int] by {
                if i != x { assert(d1.parents@[i] == d2.parents@[i]); }
            }
        }
        if d2.parents@[y] != y {
            let p2 = d2.parents@[y] as int;
            if y != x { assert(d1.parents@[y] == p2); }
            Self::lemma_relink(d1, d2, x, g, p2);
        }
    }

    // hanging the root r below the root s merges exactly the two classes
    pub proof fn lemma_link(d1: Self, d2: Self, r: usize, s: usize, y: int)
        requires d1.wf(), 0 <= r < d1.n(), 0 <= s < d1.n(), 0 <= y < d1.n(), r != s,
            d1.parents@[r as int] == r, d1.parents@[s as int] == s,
            d2.parents@ == d1.parents@.update(r as int, s),
            d2.ranks@.len() == d1.ranks@.len(),
            forall|i: int| 0 <= i < d1.n() && i != s ==> d2.ranks@[i] == d1.ranks@[i],
            d2.ranks@[s as int] >= d1.ranks@[s as int], d2.ranks@[r as int] < d2.ranks@[s as int],
        ensures d2.wf(), d2.rep(y) == (if d1.rep(y) == r { s as int } else { d1.rep(y) }),
        decreases usize::MAX - d2.ranks@[y],
    {
        assert(d2.wf()) by {
            assert forall|i: int| 0 <= i < d2.n() && #[trigger] d2.parents@[i] != i implies d2.ranks@[i] < d2.ranks@[d2.parents@[i] as int] by {
                if i != r { assert(d1.parents@[i] == d2.parents@[i]); }
            }
        }
        if d2.parents@[y] != y {
            let p2 = d2.parents@[y] as int;
            if y != r { assert(d1.parents@[y] == p2); }
            Self::lemma_link(d1, d2, r, s, p2);
        }
    }

//@fn file=src/solver/chordal/merge/disjoint_set_union.rs in="impl DisjointSetUnion" name=root ret=r
//@contract
    requires old(self).wf(), x < old(self).n(),
    ensures
        final(self).wf(), final(self).n() == old(self).n(), final(self).ranks@ == old(self).ranks@,
        // C17: the answer is the representative of x's class, and it is a root
        r < final(self).n(), r == old(self).rep(x as int), final(self).parents@[r as int] == r,
        // path compression leaves the partition untouched
        forall|y: int| 0 <= y < old(self).n() ==> #[trigger] final(self).rep(y) == old(self).rep(y),
//@pre
        let ghost x0 = x as int;
        proof { old(self).lemma_rep(x0); }
//@loop 1
            invariant
                self.wf(), self.n() == old(self).n(), self.ranks@ == old(self).ranks@, 0 <= x < self.n(),
                forall|y: int| 0 <= y < old(self).n() ==> #[trigger] self.rep(y) == old(self).rep(y),
                self.rep(x as int) == old(self).rep(x0),
            decreases usize::MAX - self.ranks@[x as int],
//@body_start 1
            let ghost d1 = *self;
            let ghost xo = x;
            proof {
                let p = d1.parents@[xo as int] as int;
                d1.lemma_rep(xo as int); d1.lemma_rep(p);
                assert(d1.rep(xo as int) == d1.rep(p));
                if d1.parents@[p] != p { assert(d1.rep(p) == d1.rep(d1.parents@[p] as int)); }
            }
//@after "self.parents[x] = self.parents[self.parents[x]]"
            proof {
                let g = self.parents@[xo as int];
                assert forall|y: int| 0 <= y < d1.n() implies #[trigger] self.rep(y) == d1.rep(y) by {
                    Self::lemma_relink(d1, *self, xo, g, y);
                }
                Self::lemma_relink(d1, *self, xo, g, xo as int);
                Self::lemma_relink(d1, *self, xo, g, g as int);
            }
//@end

//@fn file=src/solver/chordal/merge/disjoint_set_union.rs in="impl DisjointSetUnion" name=in_same_set ret=r
//@contract
    requires old(self).wf(), x < old(self).n(), y < old(self).n(),
    ensures
        final(self).wf(), final(self).n() == old(self).n(),
        r == (old(self).rep(x as int) == old(self).rep(y as int)),
        forall|z: int| 0 <= z < old(self).n() ==> #[trigger] final(self).rep(z) == old(self).rep(z),
//@end

//@fn file=src/solver/chordal/merge/disjoint_set_union.rs in="impl DisjointSetUnion" name=union
//@contract
    requires old(self).wf(), x < old(self).n(), y < old(self).n(),
        // rank budget: ranks only grow by one per union, so at most usize::MAX unions are covered
        exists|b: int| b < usize::MAX && old(self).ranks_le(b),
    ensures
        final(self).wf(), final(self).n() == old(self).n(),
        forall|b: int| old(self).ranks_le(b) ==> final(self).ranks_le(b + 1),
        // C17: exactly the classes of x and y are merged, every other class is untouched
        forall|a: int, c: int| 0 <= a < old(self).n() && 0 <= c < old(self).n() ==>
            ((#[trigger] final(self).rep(a) == #[trigger] final(self).rep(c)) <==>
             (old(self).rep(a) == old(self).rep(c)
              || ((old(self).rep(a) == old(self).rep(x as int) || old(self).rep(a) == old(self).rep(y as int))
                  && (old(self).rep(c) == old(self).rep(x as int) || old(self).rep(c) == old(self).rep(y as int))))),
//@before "if r == s"
        let ghost d1 = *self;
        proof {
            assert forall|z: int| 0 <= z < d1.n() implies #[trigger] d1.rep(z) == old(self).rep(z) by {}
            d1.lemma_rep(r as int); d1.lemma_rep(s as int);
        }
//@before "match self.ranks[r].cmp(&self.ranks[s])"
        proof {
            let b = choose|b: int| b < usize::MAX && old(self).ranks_le(b);
            assert(d1.ranks@[s as int] <= b);
        }
//@after "match self.ranks[r].cmp(&self.ranks[s])"
    proof {
        assert forall|a: int| 0 <= a < d1.n() implies
            #[trigger] self.rep(a) == (if d1.rep(a) == lo_root(d1, *self, r as int, s as int) { hi_root(d1, *self, r as int, s as int) } else { d1.rep(a) }) by {
            if self.parents@[r as int] != r as int { Self::lemma_link(d1, *self, r, s, a); }
            else { Self::lemma_link(d1, *self, s, r, a); }
        }
    }
//@end
}

// which of the two roots was hung below the other (ghost helper for the proof of union)
pub open spec fn lo_root(d1: DisjointSetUnion, d2: DisjointSetUnion, r: int, s: int) -> int {
    if d2.parents@[r] != r { r } else { s }
}
pub open spec fn hi_root(d1: DisjointSetUnion, d2: DisjointSetUnion, r: int, s: int) -> int {
    if d2.parents@[r] != r { s } else { r }
}

} // verus!
fn main() {}
