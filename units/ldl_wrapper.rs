// unit `ldl_wrapper` : the QDLDL back end adaptor of the KKT solver (C12: failures are never swallowed)
use vstd::prelude::*;
verus! {
//@include prelude/float_opaque.rs
//@include prelude/vecmath_assumed.rs
//@enum file=src/qdldl/qdldl.rs name=QDLDLError
//@struct file=src/algebra/csc/core.rs name=CscMatrix

// rule R13: a documented panic is modelled as divergence (no obligation at the call site)
pub trait UnwrapOrPanic<T> { fn unwrap_or_panic(self) -> T; }
impl<T, E> UnwrapOrPanic<T> for Result<T, E> {
    #[verifier::external_body]
    fn unwrap_or_panic(self) -> (r: T) ensures self is Ok, r == self->Ok_0 { unimplemented!() }
}

// stand-in for crate::qdldl::QDLDLFactorisation (private workspace fields); `valid` abstracts "the numeric
// factorisation held by the object is complete" (every pivot was nonzero).
pub struct QDLDLFactorisation<T> { pub Dinv: Vec<T>, pub valid_ghost: Ghost<bool> }
impl QDLDLFactorisation<F> {
    pub open spec fn valid(&self) -> bool { self.valid_ghost@ }
    // ASSUMED contract of the engine's refactor (qdldl.rs): Ok exactly when the factorisation completed.
    // (on Err the engine returns before writing the remaining pivots, so Dinv keeps stale finite values)
    #[verifier::external_body]
    pub fn refactor(&mut self) -> (r: Result<(), QDLDLError>)
        ensures r is Ok <==> final(self).valid(),
    { unimplemented!() }
    #[verifier::external_body]
    pub fn solve(&mut self, b: &mut [F])
        requires old(self).valid(),
        ensures final(self).valid() == old(self).valid(), final(b)@.len() == old(b)@.len(),
    { unimplemented!() }
}
//@struct file=src/solver/core/kktsolvers/direct/quasidef/ldlsolvers/qdldl.rs name=QDLDLDirectLDLSolver

impl QDLDLDirectLDLSolver<F> {
//@fn file=src/solver/core/kktsolvers/direct/quasidef/ldlsolvers/qdldl.rs in="DirectLDLSolver<T> for QDLDLDirectLDLSolver<T>" name=refactor rules=R1,R13 ret=r
//@contract
    ensures
        // C12: "zero pivots ... are reported as errors, never as a silently wrong solution":
        // success is reported only for a completed factorisation (a failure panics or returns false)
        r ==> final(self).factors.valid(),
        r ==> vm_is_finite(final(self).factors.Dinv@),
//@end
}

} // verus!
fn main() {}
