// unit `info_print` : what the solver prints (C20).  src/solver/implementations/default/info_print.rs is write!/writeln!/format! code;
// the new additive rule `wfmt` (tools/extract.py) turns every formatted write into ONE call `OUT.emit(FMT, &[fa(&ARG)..], newline)`, so that
// OUTPUT IS A GHOST SEQUENCE OF ITEMS (format string, argument values, newline flag) held by the print target.  The argument expressions stay
// verbatim in the verified text; a figure printed under the wrong label, two swapped figures, a dropped verbose guard are failed postconditions.
// float model: F-opaque (no float arithmetic is involved except T::min for the gap column).
//
// PROVED from the real text (extracted, never retyped; rules R1, R1f, R2, R12, wfmt, strslice):
//   InfoPrint for DefaultInfo:
//     print_configuration   !verbose: Ok, nothing printed.  verbose (and every write Ok): presolve notice iff data.presolver is Some, carrying
//                           count_reduced(); then "problem:" with variables = data.n, constraints = data.m, nnz(P) = data.P.nnz(), nnz(A) =
//                           data.A.nnz(), cones (total) = cones.len(); one line per cone type present, in the order Zero, Nonnegative,
//                           SecondOrder, Exponential, Power, GenPower; blank line; the settings block.  Nothing but the stream changes.
//     print_status_header   !verbose: Ok, nothing.  verbose: the nine column labels iter pcost dcost gap pres dres k/t μ step in that order, the
//                           rule line, flush.
//     print_status          !verbose: Ok, nothing.  verbose: one line; cell k carries the value of column k of `progress_values` (iterations,
//                           cost_primal, cost_dual, min(gap_abs, gap_rel), res_primal, res_dual, ktratio, μ, step_length; dashes for the step at
//                           iteration 0) -- the same column list the header labels come from.
//     print_footer          !verbose: Ok, nothing.  verbose: rule line, "Terminated with status = {}" carrying self.status, "solve time = {:?}"
//                           carrying self.solve_time.  requires (verbose only): solve_time is a valid argument of Duration::from_secs_f64
//                           (documented panic for negative / non-finite values; the call site stores a Duration's as_secs_f64()).
//   DefaultInfo::print_settings (the label / field pairs are listed in `settings_block`), _bool_on_off, print_nthreads, _get_precision_string,
//   _print_conedims_by_type (count, the sizes of the members of that type in list order; at most five are listed, otherwise the first four
//   and the last), SupportedConeTag::as_str, CompositeCone::len / iter, Presolver::count_reduced.
//   ConfigurablePrintTarget for DefaultInfo: print_to_stdout / print_to_file / print_to_sink / print_to_buffer / get_print_buffer forward to the
//   stream (a fresh target of the named kind with an empty history; get_print_buffer is Ok exactly for a buffer) and change nothing else.
//   LINK TO UNIT solve: `printed_of(items)` = the values of the iteration cells (format "{:>3}  ", one integer argument) in the history = the
//   first-column values of the status lines.  Proved here: print_status (verbose, Ok) appends exactly `iterations` to it; print_status with
//   verbose off, print_configuration, print_status_header, print_footer, print_settings leave it unchanged.  These are the four contracts
//   unit solve ASSUMES of `impl InfoPrint for DefaultInfo` (its `printed()`), up to its extra assumption that writing never fails.
// ASSUMED (hand-written stand-ins):
//   PrintTarget::emit: when it returns Ok exactly one item (format string, argument values, newline flag) was appended to the history; on Err
//     nothing is said (every postcondition below is conditional on Ok once something is written; `solve` unwraps the result).  flush: history
//     unchanged.  print_to_* / get_print_buffer of PrintTarget (src/io.rs: enum over Stdout / File / Vec<u8> / Box<dyn Write> / Sink).
//   ToFmtArg::fa for usize, u32, &usize, &str, String, F, SolverStatus, Duration: the abstract value of the argument.  fmt_str / fmt_exp: the
//     text of a formatted string is an uninterpreted function of (format string, argument values).
//   CompositeCone::get_type_count(tag) = number of members with that tag (CompositeCone::new counts them into a HashMap: outside Verus, by
//     inspection); SupportedCone::as_tag / numel (proved in unit solver_new); CscMatrix::nnz (proved in unit csc_core); Duration::from_secs_f64;
//     F::is_infinite; str_slice (rule strslice: &X[A..B] of an ASCII str = characters A..B, panics unless A <= B <= len);
//     ax_usize_display (the Display text of a usize is a function of its value); ax_float_size (size_of::<F>() <= 16: F is f32 / f64).
// DROPPED: expformat!'s finite / non-finite case split and _exp_str_reformat (textual shape of a number only; Kani harness
//   expformat_nonfinite_no_panic covers panic-freedom), print_chordal_decomposition and the PSDTriangleCone line (feature sdp: R12),
//   print_to_stream / print_target (Verus: "dyn with more than one trait" / "unsizing operation to &mut dyn Write" unsupported), byte-level
//   text (padding, digits), `_print_banner`.
// EXCLUDED label / field pair (potential finding, reported): `_bool_on_off(false)` returns "false" where its name promises "off"; the spec
//   fixes only enabled -> "on", disabled -> one other word (`on_off_word`, closed: its definition has to follow a fix of the code).
// NOT IN THE CODE (reported): the footer prints status and solve time only -- no iteration count, no objective value.
// Format strings (labels with their padding, number formats) are part of the specification: a changed label is a failed obligation.
// Mutation round (scratch copy, 34 wrong edits of info_print.rs, one at a time): 33 fail a named obligation (swapped figures / labels / fields,
//   guards removed / moved / inverted, n <-> m, nnz(P) from A, cone order, footer value, iterations + 1, max for min, precision, list bounds,
//   thread arms, dropped newline, forwarding to the wrong target, ignored write result).  SURVIVOR: dropping `out.flush()` in
//   print_status_header (flushing has no effect on the item history; the property does not mention it).
// rlimit: largest function ~7-12 M of 150 M (print_settings, _print_conedims_by_type), 45 obligations, stable under Z3 seeds 1-6.
use vstd::prelude::*;
use vstd::string::*;
use vstd::std_specs::iter::IteratorSpec;
verus! {
//@include prelude/float_opaque.rs

#[verifier::external_type_specification]
#[verifier::external_body]
pub struct ExIoError(std::io::Error);
#[verifier::external_type_specification]
#[verifier::external_body]
pub struct ExFile(std::fs::File);

//@enum file=src/solver/core/solver.rs name=SolverStatus derive="PartialEq, Eq, Clone, Copy, Structural"
//@enum file=src/solver/core/cones/supportedcone.rs name=SupportedConeT rules=R12
//@enum file=src/solver/core/cones/supportedcone.rs name=SupportedConeTag rules=R12 derive="PartialEq, Eq, Clone, Copy, Structural"
//@struct file=src/solver/implementations/default/settings.rs name=DefaultSettings rules=R1f
//@struct file=src/solver/core/kktsolvers/mod.rs name=LinearSolverInfo keep=name,threads,direct
//@struct file=src/solver/implementations/default/info.rs name=DefaultInfo rules=R2,R1f keep=mu,step_length,iterations,cost_primal,cost_dual,res_primal,res_dual,gap_abs,gap_rel,ktratio,solve_time,status,linsolver,stream
//@struct file=src/solver/implementations/default/presolver.rs name=Presolver keep=_init_cones,mfull,mreduced
//@struct file=src/solver/implementations/default/problemdata.rs name=DefaultProblemData keep=P,A,n,m,presolver
//@struct file=src/solver/core/cones/compositecone.rs name=CompositeCone keep=cones

pub trait FloatT {}
impl FloatT for F {}
pub uninterp spec fn f_is_infinite(a: F) -> bool;
impl F {
    #[verifier::external_body] pub fn is_infinite(self) -> (r: bool) ensures r == f_is_infinite(self) { unimplemented!() }
}

// ------------------------------------------------------------------ output as a ghost sequence of items
// abstract value of one formatted argument
pub ghost enum FmtVal { U(nat), Fl(F), S(Seq<char>), St(SolverStatus), Dur(F) }
// one write!/writeln! call: format string, argument values, trailing newline
pub ghost struct Item { pub fmt: Seq<char>, pub args: Seq<FmtVal>, pub nl: bool }
#[verifier::external_body]
pub struct FmtArg { _p: u8 }
impl FmtArg { pub uninterp spec fn v(&self) -> FmtVal; }
pub open spec fn vals(a: Seq<FmtArg>) -> Seq<FmtVal> { Seq::new(a.len(), |i: int| a[i].v()) }
// `vals` of a short list written with seq![..] (sequence equality is extensional: proved below, repeated in the contracts of emit / fmt_str
// so that every call site has it without a hint)
pub open spec fn vals_canonical(a: Seq<FmtArg>) -> bool {
    &&& (a.len() == 0 ==> vals(a) == Seq::<FmtVal>::empty())
    &&& (a.len() == 1 ==> vals(a) == seq![a[0].v()])
    &&& (a.len() == 2 ==> vals(a) == seq![a[0].v(), a[1].v()])
    &&& (a.len() == 3 ==> vals(a) == seq![a[0].v(), a[1].v(), a[2].v()])
    &&& (a.len() == 4 ==> vals(a) == seq![a[0].v(), a[1].v(), a[2].v(), a[3].v()])
}
pub proof fn lemma_vals_canonical(a: Seq<FmtArg>) ensures vals_canonical(a) {
    if a.len() == 0 { assert(vals(a) =~= Seq::<FmtVal>::empty()); }
    if a.len() == 1 { assert(vals(a) =~= seq![a[0].v()]); }
    if a.len() == 2 { assert(vals(a) =~= seq![a[0].v(), a[1].v()]); }
    if a.len() == 3 { assert(vals(a) =~= seq![a[0].v(), a[1].v(), a[2].v()]); }
    if a.len() == 4 { assert(vals(a) =~= seq![a[0].v(), a[1].v(), a[2].v(), a[3].v()]); }
}
#[verifier::opaque]
pub open spec fn item(fmt: Seq<char>, args: Seq<FmtVal>, nl: bool) -> Item { Item { fmt, args, nl } }

pub trait ToFmtArg {
    spec fn fv(&self) -> FmtVal;
    fn fa(&self) -> (r: FmtArg) ensures r.v() == self.fv();
}
impl ToFmtArg for usize { open spec fn fv(&self) -> FmtVal { FmtVal::U(*self as nat) } #[verifier::external_body] fn fa(&self) -> (r: FmtArg) { unimplemented!() } }
impl ToFmtArg for &usize { open spec fn fv(&self) -> FmtVal { FmtVal::U(**self as nat) } #[verifier::external_body] fn fa(&self) -> (r: FmtArg) { unimplemented!() } }
impl ToFmtArg for u32 { open spec fn fv(&self) -> FmtVal { FmtVal::U(*self as nat) } #[verifier::external_body] fn fa(&self) -> (r: FmtArg) { unimplemented!() } }
impl ToFmtArg for F { open spec fn fv(&self) -> FmtVal { FmtVal::Fl(*self) } #[verifier::external_body] fn fa(&self) -> (r: FmtArg) { unimplemented!() } }
impl ToFmtArg for &str { open spec fn fv(&self) -> FmtVal { FmtVal::S(self@) } #[verifier::external_body] fn fa(&self) -> (r: FmtArg) { unimplemented!() } }
impl ToFmtArg for String { open spec fn fv(&self) -> FmtVal { FmtVal::S(self@) } #[verifier::external_body] fn fa(&self) -> (r: FmtArg) { unimplemented!() } }
impl ToFmtArg for SolverStatus { open spec fn fv(&self) -> FmtVal { FmtVal::St(*self) } #[verifier::external_body] fn fa(&self) -> (r: FmtArg) { unimplemented!() } }
impl ToFmtArg for Duration { open spec fn fv(&self) -> FmtVal { FmtVal::Dur(self.secs()) } #[verifier::external_body] fn fa(&self) -> (r: FmtArg) { unimplemented!() } }
pub fn fa<X: ToFmtArg>(x: &X) -> (r: FmtArg) ensures r.v() == x.fv() { x.fa() }

// text produced by format! / expformat!: an uninterpreted function of the format string and the argument values
pub uninterp spec fn fmt_text(fmt: Seq<char>, args: Seq<FmtVal>) -> Seq<char>;
pub uninterp spec fn exp_text(fmt: Seq<char>, v: FmtVal) -> Seq<char>;
#[verifier::external_body]
pub fn fmt_str(fmt: &str, args: &[FmtArg]) -> (r: String)
    ensures r@ == fmt_text(fmt@, vals(args@)), vals_canonical(args@),     // the latter is not an assumption: lemma_vals_canonical
{ unimplemented!() }
#[verifier::external_body]
pub fn fmt_exp(fmt: &str, v: FmtArg) -> (r: String) ensures r@ == exp_text(fmt@, v.v()) { unimplemented!() }
// rule strslice: &X[A..B] on an ASCII &str
#[verifier::external_body]
pub fn str_slice(s: &'static str, a: usize, b: usize) -> (r: &'static str)
    requires s.is_ascii(), a <= b <= s@.len(),
    ensures r@ == s@.subrange(a as int, b as int), r.is_ascii(),
{ unimplemented!() }

// stand-in for crate::io::PrintTarget
#[derive(PartialEq, Eq, Clone, Copy, Structural)]
pub enum TargetKind { Stdout, File, Stream, Sink, Buffer }
#[verifier::external_body]
pub struct PrintTarget { _p: u8 }
impl PrintTarget {
    // everything written to this target so far
    pub uninterp spec fn items(&self) -> Seq<Item>;
    pub uninterp spec fn kind(&self) -> TargetKind;
    #[verifier::external_body]
    pub fn emit(&mut self, fmt: &str, args: &[FmtArg], nl: bool) -> (r: std::io::Result<()>)
        ensures final(self).kind() == old(self).kind(),
            r is Ok ==> final(self).items() == old(self).items().push(item(fmt@, vals(args@), nl)),
            vals_canonical(args@),     // not an assumption: lemma_vals_canonical
    { unimplemented!() }
    #[verifier::external_body]
    pub fn flush(&mut self) -> (r: std::io::Result<()>)
        ensures final(self).kind() == old(self).kind(), final(self).items() == old(self).items(),
    { unimplemented!() }
    // impl ConfigurablePrintTarget for PrintTarget (src/io.rs): the target is replaced by a fresh one of the named kind
    #[verifier::external_body] pub fn print_to_stdout(&mut self)
        ensures final(self).kind() == TargetKind::Stdout, final(self).items() == Seq::<Item>::empty() { unimplemented!() }
    #[verifier::external_body] pub fn print_to_file(&mut self, file: std::fs::File)
        ensures final(self).kind() == TargetKind::File, final(self).items() == Seq::<Item>::empty() { unimplemented!() }
    #[verifier::external_body] pub fn print_to_sink(&mut self)
        ensures final(self).kind() == TargetKind::Sink, final(self).items() == Seq::<Item>::empty() { unimplemented!() }
    #[verifier::external_body] pub fn print_to_buffer(&mut self)
        ensures final(self).kind() == TargetKind::Buffer, final(self).items() == Seq::<Item>::empty() { unimplemented!() }
    #[verifier::external_body] pub fn get_print_buffer(&mut self) -> (r: std::io::Result<String>)
        ensures final(self).kind() == old(self).kind(), final(self).items() == old(self).items(),
            r is Ok <==> old(self).kind() == TargetKind::Buffer,
    { unimplemented!() }
}

// stand-in for std::time::Duration (only its construction from seconds and its Debug text are used)
pub struct Duration { pub _s: F }
pub uninterp spec fn dur_arg_ok(s: F) -> bool;     // not negative, finite, no overflow: otherwise Duration::from_secs_f64 panics
impl Duration {
    pub open spec fn secs(&self) -> F { self._s }
    #[verifier::external_body]
    pub fn from_secs_f64(s: F) -> (r: Duration) requires dur_arg_ok(s) ensures r.secs() == s { unimplemented!() }
}

// ------------------------------------------------------------------ stand-ins for the problem objects (only what printing reads)
#[verifier::external_body]
#[verifier::accept_recursive_types(T)]
pub struct CscMatrix<T> { _p: Option<T> }
impl CscMatrix<F> {
    pub uninterp spec fn nnz_spec(&self) -> nat;
    #[verifier::external_body] pub fn nnz(&self) -> (r: usize) ensures r == self.nnz_spec() { unimplemented!() }
}
#[verifier::external_body]
#[verifier::accept_recursive_types(T)]
pub struct SupportedCone<T> { _p: Option<T> }
impl SupportedCone<F> {
    pub uninterp spec fn tag(&self) -> SupportedConeTag;
    pub uninterp spec fn numel_spec(&self) -> usize;
    #[verifier::external_body] pub fn as_tag(&self) -> (r: SupportedConeTag) ensures r == self.tag() { unimplemented!() }
    #[verifier::external_body] pub fn numel(&self) -> (r: usize) ensures r == self.numel_spec() { unimplemented!() }
}
// sizes of the members of type `tag`, in list order
pub open spec fn numels_of(cs: Seq<SupportedCone<F>>, tag: SupportedConeTag) -> Seq<usize>
    decreases cs.len()
{
    if cs.len() == 0 { Seq::<usize>::empty() }
    else {
        let p = numels_of(cs.drop_last(), tag);
        if cs.last().tag() == tag { p.push(cs.last().numel_spec()) } else { p }
    }
}

impl Presolver<F> {
//@fn file=src/solver/implementations/default/presolver.rs in="impl<T> Presolver<T>" name=count_reduced rules=R1 ret=r
//@contract
    requires self.mreduced <= self.mfull,
    ensures r == self.mfull - self.mreduced,
//@end
}

impl CompositeCone<F> {
//@fn file=src/solver/core/cones/compositecone.rs in="impl<T> CompositeCone<T>" name=len rules=R1 ret=r
//@contract
    ensures r == self.cones@.len(),
//@end
//@fn file=src/solver/core/cones/compositecone.rs in="impl<T> CompositeCone<T>" name=iter rules=R1 ret=r
//@contract
    ensures r.remaining() == self.cones@.as_ref(), vstd::std_specs::slice::into_iter_elts(r) == r.remaining().unref(), r.decrease() is Some,
//@end
    #[verifier::external_body]
    pub fn get_type_count(&self, tag: SupportedConeTag) -> (r: usize)
        ensures r == numels_of(self.cones@, tag).len(),
    { unimplemented!() }
}

// ------------------------------------------------------------------ specification (from the property statement)
pub open spec fn cell(fmt: Seq<char>, args: Seq<FmtVal>) -> Item { item(fmt, args, false) }
pub open spec fn line(fmt: Seq<char>, args: Seq<FmtVal>) -> Item { item(fmt, args, true) }
pub open spec fn rule_line() -> Item {
    line("---------------------------------------------------------------------------------------------"@, seq![])
}

// ---- progress table: ONE list of columns; the header prints the labels, every status line the values, in this order
pub open spec fn progress_labels() -> Seq<Seq<char>> {
    seq!["iter    "@, "pcost        "@, "dcost       "@, "gap       "@, "pres      "@, "dres      "@, "k/t       "@, " μ       "@, "step      "@]
}
pub open spec fn progress_values(i: DefaultInfo<F>) -> Seq<FmtVal> {
    seq![
        FmtVal::U(i.iterations as nat),                  // iter
        FmtVal::Fl(i.cost_primal),                       // pcost
        FmtVal::Fl(i.cost_dual),                         // dcost
        FmtVal::Fl(f_min(i.gap_abs, i.gap_rel)),         // gap: the smaller of the absolute and the relative duality gap
        FmtVal::Fl(i.res_primal),                        // pres
        FmtVal::Fl(i.res_dual),                          // dres
        FmtVal::Fl(i.ktratio),                           // k/t
        FmtVal::Fl(i.mu),                                // μ
        FmtVal::Fl(i.step_length),                       // step
    ]
}
// number format of each figure column (costs signed with four digits, the others two digits)
pub open spec fn progress_numfmt() -> Seq<Seq<char>> {
    seq![""@, "{:+8.4e}"@, "{:+8.4e}"@, "{:6.2e}"@, "{:6.2e}"@, "{:6.2e}"@, "{:6.2e}"@, "{:6.2e}"@, "{:>.2e}"@]
}
pub open spec fn iter_cell(n: nat) -> Item { cell("{:>3}  "@, seq![FmtVal::U(n)]) }
pub open spec fn figure_cell(k: int, i: DefaultInfo<F>) -> Item {
    cell("{}  "@, seq![FmtVal::S(exp_text(progress_numfmt()[k], progress_values(i)[k]))])
}
pub open spec fn label_cell(k: int) -> Item { cell(progress_labels()[k], seq![]) }
// Every list below is written once, as `X_onto(b, ..)` = the items appended to a history b; `X(..)` = X_onto(empty, ..) is the list itself and
// lemma_X says X_onto(b, ..) == b + X(..).  (The code's history is a chain of pushes: it equals X_onto(old, ..) term by term.)
pub open spec fn header_onto(b: Seq<Item>) -> Seq<Item> {
    b.push(label_cell(0)).push(label_cell(1)).push(label_cell(2)).push(label_cell(3)).push(label_cell(4)).push(label_cell(5))
     .push(label_cell(6)).push(label_cell(7)).push(label_cell(8)).push(line(""@, seq![])).push(rule_line())
}
pub open spec fn header_items() -> Seq<Item> { header_onto(Seq::empty()) }
pub proof fn lemma_header(b: Seq<Item>) ensures header_onto(b) == b + header_items() { assert(header_onto(b) =~= b + header_items()); }
pub open spec fn status_line_onto(b: Seq<Item>, i: DefaultInfo<F>) -> Seq<Item> {
    b.push(iter_cell(i.iterations as nat))
     .push(figure_cell(1, i)).push(figure_cell(2, i)).push(figure_cell(3, i)).push(figure_cell(4, i)).push(figure_cell(5, i))
     .push(figure_cell(6, i)).push(figure_cell(7, i))
     .push(if i.iterations > 0 { figure_cell(8, i) } else { cell(" ------   "@, seq![]) })   // no step before the first iteration
     .push(line(""@, seq![]))
}
pub open spec fn status_line(i: DefaultInfo<F>) -> Seq<Item> { status_line_onto(Seq::empty(), i) }
pub proof fn lemma_status_line(b: Seq<Item>, i: DefaultInfo<F>) ensures status_line_onto(b, i) == b + status_line(i) {
    assert(status_line_onto(b, i) =~= b + status_line(i));
}
pub open spec fn footer_onto(b: Seq<Item>, i: DefaultInfo<F>) -> Seq<Item> {
    b.push(rule_line())
     .push(line("Terminated with status = {}"@, seq![FmtVal::St(i.status)]))
     .push(line("solve time = {:?}"@, seq![FmtVal::Dur(i.solve_time)]))
}
pub open spec fn footer_items(i: DefaultInfo<F>) -> Seq<Item> { footer_onto(Seq::empty(), i) }
pub proof fn lemma_footer(b: Seq<Item>, i: DefaultInfo<F>) ensures footer_onto(b, i) == b + footer_items(i) {
    assert(footer_onto(b, i) =~= b + footer_items(i));
}

// ---- the iteration column: what unit solve calls `printed()`
pub open spec fn is_iter_cell(it: Item) -> bool { it.fmt == "{:>3}  "@ && it.args.len() == 1 && it.args[0] is U }
pub open spec fn printed_of(s: Seq<Item>) -> Seq<nat>
    decreases s.len()
{
    if s.len() == 0 { Seq::<nat>::empty() }
    else {
        let p = printed_of(s.drop_last());
        if is_iter_cell(s.last()) { p.push(s.last().args[0]->U_0) } else { p }
    }
}
pub proof fn lemma_printed_push(s: Seq<Item>, x: Item)
    ensures printed_of(s.push(x)) == (if is_iter_cell(x) { printed_of(s).push(x.args[0]->U_0) } else { printed_of(s) }),
{
    assert(s.push(x).drop_last() =~= s);
}
// appending items none of which is an iteration cell leaves the column alone
pub open spec fn no_iter_cell(t: Seq<Item>) -> bool { forall|k: int| 0 <= k < t.len() ==> !is_iter_cell(#[trigger] t[k]) }
pub proof fn lemma_printed_append(s: Seq<Item>, t: Seq<Item>)
    requires no_iter_cell(t),
    ensures printed_of(s + t) == printed_of(s),
    decreases t.len(),
{
    if t.len() == 0 {
        assert(s + t =~= s);
    } else {
        assert((s + t).drop_last() =~= s + t.drop_last());
        assert((s + t).last() == t.last());
        assert(no_iter_cell(t.drop_last())) by {
            assert forall|k: int| 0 <= k < t.drop_last().len() implies !is_iter_cell(#[trigger] t.drop_last()[k]) by { assert(t.drop_last()[k] == t[k]); }
        }
        lemma_printed_append(s, t.drop_last());
    }
}

// ---- configuration header
pub open spec fn tag_name(tag: SupportedConeTag) -> Seq<char> {
    match tag {
        SupportedConeTag::ZeroCone => "ZeroCone"@,
        SupportedConeTag::NonnegativeCone => "NonnegativeCone"@,
        SupportedConeTag::SecondOrderCone => "SecondOrderCone"@,
        SupportedConeTag::ExponentialCone => "ExponentialCone"@,
        SupportedConeTag::PowerCone => "PowerCone"@,
        SupportedConeTag::GenPowerCone => "GenPowerCone"@,
    }
}
// the label of a cone-type line: the type name without its trailing "Cone", right-aligned
pub open spec fn cone_label(tag: SupportedConeTag) -> Seq<char> {
    fmt_text("{:>11}"@, seq![FmtVal::S(tag_name(tag).subrange(0, tag_name(tag).len() - 4))])
}
pub open spec fn numel_cells(nv: Seq<usize>, k: int) -> Seq<Item> {
    Seq::new(k as nat, |j: int| cell("{},"@, seq![FmtVal::U(nv[j] as nat)]))
}
pub open spec fn numel_part(nv: Seq<usize>) -> Seq<Item> {
    let c = nv.len() as int;
    if c == 1 { seq![cell(" numel = {}"@, seq![FmtVal::U(nv[0] as nat)])] }
    else if c <= 5 { seq![cell(" numel = ("@, seq![])] + numel_cells(nv, c - 1) + seq![cell("{})"@, seq![FmtVal::U(nv[c - 1] as nat)])] }
    else { seq![cell(" numel = ("@, seq![])] + numel_cells(nv, 4) + seq![cell("...,{})"@, seq![FmtVal::U(nv[c - 1] as nat)])] }
}
#[verifier::opaque]
pub open spec fn cone_line(cs: Seq<SupportedCone<F>>, tag: SupportedConeTag) -> Seq<Item> {
    let nv = numels_of(cs, tag);
    if nv.len() == 0 { Seq::<Item>::empty() }
    else {
        seq![cell("    : {} = {}, "@, seq![FmtVal::S(cone_label(tag)), FmtVal::U(nv.len())])] + numel_part(nv) + seq![line(""@, seq![])]
    }
}
pub open spec fn presolve_part(d: DefaultProblemData<F>) -> Seq<Item> {
    match d.presolver {
        Some(p) => seq![line("\npresolve: removed {} constraints"@, seq![FmtVal::U((p.mfull - p.mreduced) as nat)])],
        None => Seq::<Item>::empty(),
    }
}
pub open spec fn problem_onto(b: Seq<Item>, d: DefaultProblemData<F>, cs: Seq<SupportedCone<F>>) -> Seq<Item> {
    b.push(line("\nproblem:"@, seq![]))
     .push(line("  variables     = {}"@, seq![FmtVal::U(d.n as nat)]))
     .push(line("  constraints   = {}"@, seq![FmtVal::U(d.m as nat)]))
     .push(line("  nnz(P)        = {}"@, seq![FmtVal::U(d.P.nnz_spec())]))
     .push(line("  nnz(A)        = {}"@, seq![FmtVal::U(d.A.nnz_spec())]))
     .push(line("  cones (total) = {}"@, seq![FmtVal::U(cs.len())]))
}
pub open spec fn problem_part(d: DefaultProblemData<F>, cs: Seq<SupportedCone<F>>) -> Seq<Item> { problem_onto(Seq::empty(), d, cs) }
pub proof fn lemma_problem(b: Seq<Item>, d: DefaultProblemData<F>, cs: Seq<SupportedCone<F>>) ensures problem_onto(b, d, cs) == b + problem_part(d, cs) {
    assert(problem_onto(b, d, cs) =~= b + problem_part(d, cs));
}
pub open spec fn cones_part(cs: Seq<SupportedCone<F>>) -> Seq<Item> {
    cone_line(cs, SupportedConeTag::ZeroCone) + cone_line(cs, SupportedConeTag::NonnegativeCone)
    + cone_line(cs, SupportedConeTag::SecondOrderCone) + cone_line(cs, SupportedConeTag::ExponentialCone)
    + cone_line(cs, SupportedConeTag::PowerCone) + cone_line(cs, SupportedConeTag::GenPowerCone)
}

// ---- settings block: (label, settings field) pairs as a user reads the labels
// enabled -> "on"; disabled -> one other fixed word.  EXCLUDED: that this word is "off" (the code returns "false": reported)
pub closed spec fn on_off_word(v: bool) -> Seq<char> { if v { "on"@ } else { "false"@ } }
pub proof fn lemma_on_off_word()
    ensures on_off_word(true) == "on"@, on_off_word(false) != "on"@,
{
    reveal_strlit("on"); reveal_strlit("false");
    assert("on"@.len() == 2 && "false"@.len() == 5);
}
pub uninterp spec fn usize_text(n: usize) -> Seq<char>;
// ASSUMED: the Display text of a usize is a function of its value
#[verifier::external_body]
pub proof fn ax_usize_display(n: usize, s: String)
    ensures to_string_from_display_ensures::<usize>(&n, s) ==> s@ == usize_text(n) { }
// ASSUMED: F stands for f32 / f64
#[verifier::external_body]
pub proof fn ax_float_size() ensures vstd::layout::size_of::<F>() <= 16 { }
pub open spec fn precision_text() -> Seq<char> { usize_text((vstd::layout::size_of::<F>() * 8) as usize) }
pub open spec fn time_limit_text(t: F) -> Seq<char> {
    if f_is_infinite(t) { "Inf"@ } else { fmt_text("{:?}"@, seq![FmtVal::Fl(t)]) }
}
pub open spec fn threads_part(n: usize) -> Seq<Item> {
    if n == 0 { Seq::<Item>::empty() }
    else if n == 1 { seq![cell("(1 thread)"@, seq![])] }
    else { seq![cell("({nthreads} threads)"@, seq![FmtVal::U(n as nat)])] }
}
pub open spec fn settings_head_onto(b: Seq<Item>, ls: LinearSolverInfo) -> Seq<Item> {
    b.push(line("settings:"@, seq![]))
     .push(cell("  linear algebra: "@, seq![]))
     .push(cell(if ls.direct { "direct / {}, "@ } else { "indirect / {}, "@ }, seq![FmtVal::S(ls.name@)]))
     .push(cell("precision: {} bit "@, seq![FmtVal::S(precision_text())]))
}
pub open spec fn settings_head(ls: LinearSolverInfo) -> Seq<Item> { settings_head_onto(Seq::empty(), ls) }
pub proof fn lemma_settings_head(b: Seq<Item>, ls: LinearSolverInfo) ensures settings_head_onto(b, ls) == b + settings_head(ls) {
    assert(settings_head_onto(b, ls) =~= b + settings_head(ls));
}
pub open spec fn settings_tail_onto(b: Seq<Item>, set: DefaultSettings<F>) -> Seq<Item> {
    b.push(line(""@, seq![]))
     .push(line("  max iter = {}, time limit = {},  max step = {:.3}"@,
             seq![FmtVal::U(set.max_iter as nat), FmtVal::S(time_limit_text(set.time_limit)), FmtVal::Fl(set.max_step_fraction)]))
     .push(line("  tol_feas = {:.1e}, tol_gap_abs = {:.1e}, tol_gap_rel = {:.1e},"@,
             seq![FmtVal::Fl(set.tol_feas), FmtVal::Fl(set.tol_gap_abs), FmtVal::Fl(set.tol_gap_rel)]))
     .push(line("  static reg : {}, ϵ1 = {:.1e}, ϵ2 = {:.1e}"@,
             seq![FmtVal::S(on_off_word(set.static_regularization_enable)), FmtVal::Fl(set.static_regularization_constant),
                  FmtVal::Fl(set.static_regularization_proportional)]))
     .push(line("  dynamic reg: {}, ϵ = {:.1e}, δ = {:.1e}"@,
             seq![FmtVal::S(on_off_word(set.dynamic_regularization_enable)), FmtVal::Fl(set.dynamic_regularization_eps),
                  FmtVal::Fl(set.dynamic_regularization_delta)]))
     .push(line("  iter refine: {}, reltol = {:.1e}, abstol = {:.1e},"@,
             seq![FmtVal::S(on_off_word(set.iterative_refinement_enable)), FmtVal::Fl(set.iterative_refinement_reltol),
                  FmtVal::Fl(set.iterative_refinement_abstol)]))
     .push(line("               max iter = {}, stop ratio = {:.1}"@,
             seq![FmtVal::U(set.iterative_refinement_max_iter as nat), FmtVal::Fl(set.iterative_refinement_stop_ratio)]))
     .push(line("  equilibrate: {}, min_scale = {:.1e}, max_scale = {:.1e}"@,
             seq![FmtVal::S(on_off_word(set.equilibrate_enable)), FmtVal::Fl(set.equilibrate_min_scaling), FmtVal::Fl(set.equilibrate_max_scaling)]))
     .push(line("               max iter = {}"@, seq![FmtVal::U(set.equilibrate_max_iter as nat)]))
     .push(line(""@, seq![]))
}
pub open spec fn settings_tail(set: DefaultSettings<F>) -> Seq<Item> { settings_tail_onto(Seq::empty(), set) }
pub proof fn lemma_settings_tail(b: Seq<Item>, set: DefaultSettings<F>) ensures settings_tail_onto(b, set) == b + settings_tail(set) {
    assert(settings_tail_onto(b, set) =~= b + settings_tail(set));
}
pub open spec fn settings_block(set: DefaultSettings<F>, ls: LinearSolverInfo) -> Seq<Item> {
    settings_head(ls) + threads_part(ls.threads) + settings_tail(set)
}
pub open spec fn configuration_items(set: DefaultSettings<F>, d: DefaultProblemData<F>, cs: Seq<SupportedCone<F>>, ls: LinearSolverInfo) -> Seq<Item> {
    presolve_part(d) + problem_part(d, cs) + cones_part(cs) + seq![line(""@, seq![])] + settings_block(set, ls)
}
// ---- the iteration column of each list (link to unit solve): only a status line contributes, and it contributes `iterations`
pub proof fn lemma_no_iter_concat(a: Seq<Item>, b: Seq<Item>)
    requires no_iter_cell(a), no_iter_cell(b),
    ensures no_iter_cell(a + b),
{
    assert forall|k: int| 0 <= k < (a + b).len() implies !is_iter_cell(#[trigger] (a + b)[k]) by {
        if k < a.len() { assert((a + b)[k] == a[k]); } else { assert((a + b)[k] == b[k - a.len()]); }
    }
}
// the format string of the iteration cell differs from every other format string that carries exactly one integer
pub proof fn lemma_iter_fmt_distinct()
    ensures
        "{}  "@ != "{:>3}  "@, "\npresolve: removed {} constraints"@ != "{:>3}  "@, "  variables     = {}"@ != "{:>3}  "@,
        "  constraints   = {}"@ != "{:>3}  "@, "  nnz(P)        = {}"@ != "{:>3}  "@, "  nnz(A)        = {}"@ != "{:>3}  "@,
        "  cones (total) = {}"@ != "{:>3}  "@, " numel = {}"@ != "{:>3}  "@, "{},"@ != "{:>3}  "@, "{})"@ != "{:>3}  "@,
        "...,{})"@ != "{:>3}  "@, "({nthreads} threads)"@ != "{:>3}  "@, "               max iter = {}"@ != "{:>3}  "@,
{
    reveal_strlit("{:>3}  "); reveal_strlit("{}  "); reveal_strlit("\npresolve: removed {} constraints"); reveal_strlit("  variables     = {}");
    reveal_strlit("  constraints   = {}"); reveal_strlit("  nnz(P)        = {}"); reveal_strlit("  nnz(A)        = {}");
    reveal_strlit("  cones (total) = {}"); reveal_strlit(" numel = {}"); reveal_strlit("{},"); reveal_strlit("{})");
    reveal_strlit("...,{})"); reveal_strlit("({nthreads} threads)"); reveal_strlit("               max iter = {}");
    assert("{:>3}  "@.len() == 7 && "{:>3}  "@[0] == '{');
    assert("{}  "@.len() == 4);
    assert("\npresolve: removed {} constraints"@.len() > 7);
    assert("  variables     = {}"@.len() > 7 && "  constraints   = {}"@.len() > 7 && "  nnz(P)        = {}"@.len() > 7);
    assert("  nnz(A)        = {}"@.len() > 7 && "  cones (total) = {}"@.len() > 7 && " numel = {}"@.len() > 7);
    assert("{},"@.len() == 3 && "{})"@.len() == 3);
    assert("...,{})"@[0] == '.');
    assert("({nthreads} threads)"@.len() > 7 && "               max iter = {}"@.len() > 7);
}
pub proof fn lemma_status_printed(b: Seq<Item>, i: DefaultInfo<F>)
    ensures printed_of(b + status_line(i)) == printed_of(b).push(i.iterations as nat),
{
    reveal(item);
    lemma_iter_fmt_distinct();
    let t = status_line(i);
    let c = iter_cell(i.iterations as nat);
    let rest = t.subrange(1, 10);
    assert(b + t =~= b.push(c) + rest);
    assert(no_iter_cell(rest)) by {
        assert forall|k: int| 0 <= k < rest.len() implies !is_iter_cell(#[trigger] rest[k]) by { assert(rest[k] == t[k + 1]); }
    }
    lemma_printed_append(b.push(c), rest);
    lemma_printed_push(b, c);
}
pub proof fn lemma_header_printed(b: Seq<Item>) ensures printed_of(b + header_items()) == printed_of(b) {
    reveal(item);
    lemma_printed_append(b, header_items());
}
pub proof fn lemma_footer_printed(b: Seq<Item>, i: DefaultInfo<F>) ensures printed_of(b + footer_items(i)) == printed_of(b) {
    reveal(item);
    lemma_printed_append(b, footer_items(i));
}
pub proof fn lemma_settings_no_iter(set: DefaultSettings<F>, ls: LinearSolverInfo) ensures no_iter_cell(settings_block(set, ls)) {
    reveal(item);
    lemma_iter_fmt_distinct();
    assert(no_iter_cell(settings_head(ls)));
    assert(no_iter_cell(threads_part(ls.threads)));
    assert(no_iter_cell(settings_tail(set)));
    lemma_no_iter_concat(settings_head(ls), threads_part(ls.threads));
    lemma_no_iter_concat(settings_head(ls) + threads_part(ls.threads), settings_tail(set));
}
pub proof fn lemma_cone_line_no_iter(cs: Seq<SupportedCone<F>>, tag: SupportedConeTag) ensures no_iter_cell(cone_line(cs, tag)) {
    reveal(item); reveal(cone_line);
    lemma_iter_fmt_distinct();
    let nv = numels_of(cs, tag);
    if nv.len() > 0 {
        let c = nv.len() as int;
        let first = seq![cell("    : {} = {}, "@, seq![FmtVal::S(cone_label(tag)), FmtVal::U(nv.len())])];
        let last = seq![line(""@, seq![])];
        assert(no_iter_cell(first));
        assert(no_iter_cell(last));
        assert(no_iter_cell(numel_cells(nv, c - 1)));
        assert(no_iter_cell(numel_cells(nv, 4)));
        if c == 1 {
        } else if c <= 5 {
            lemma_no_iter_concat(seq![cell(" numel = ("@, seq![])], numel_cells(nv, c - 1));
            lemma_no_iter_concat(seq![cell(" numel = ("@, seq![])] + numel_cells(nv, c - 1), seq![cell("{})"@, seq![FmtVal::U(nv[c - 1] as nat)])]);
        } else {
            lemma_no_iter_concat(seq![cell(" numel = ("@, seq![])], numel_cells(nv, 4));
            lemma_no_iter_concat(seq![cell(" numel = ("@, seq![])] + numel_cells(nv, 4), seq![cell("...,{})"@, seq![FmtVal::U(nv[c - 1] as nat)])]);
        }
        assert(no_iter_cell(numel_part(nv)));
        lemma_no_iter_concat(first, numel_part(nv));
        lemma_no_iter_concat(first + numel_part(nv), last);
    }
}
pub proof fn lemma_configuration_printed(b: Seq<Item>, set: DefaultSettings<F>, d: DefaultProblemData<F>, cs: Seq<SupportedCone<F>>, ls: LinearSolverInfo)
    ensures printed_of(b + configuration_items(set, d, cs, ls)) == printed_of(b),
{
    lemma_iter_fmt_distinct();
    lemma_settings_no_iter(set, ls);
    lemma_cone_line_no_iter(cs, SupportedConeTag::ZeroCone); lemma_cone_line_no_iter(cs, SupportedConeTag::NonnegativeCone);
    lemma_cone_line_no_iter(cs, SupportedConeTag::SecondOrderCone); lemma_cone_line_no_iter(cs, SupportedConeTag::ExponentialCone);
    lemma_cone_line_no_iter(cs, SupportedConeTag::PowerCone); lemma_cone_line_no_iter(cs, SupportedConeTag::GenPowerCone);
    let l1 = cone_line(cs, SupportedConeTag::ZeroCone); let l2 = cone_line(cs, SupportedConeTag::NonnegativeCone);
    let l3 = cone_line(cs, SupportedConeTag::SecondOrderCone); let l4 = cone_line(cs, SupportedConeTag::ExponentialCone);
    let l5 = cone_line(cs, SupportedConeTag::PowerCone); let l6 = cone_line(cs, SupportedConeTag::GenPowerCone);
    lemma_no_iter_concat(l1, l2); lemma_no_iter_concat(l1 + l2, l3); lemma_no_iter_concat(l1 + l2 + l3, l4);
    lemma_no_iter_concat(l1 + l2 + l3 + l4, l5); lemma_no_iter_concat(l1 + l2 + l3 + l4 + l5, l6);
    assert(no_iter_cell(presolve_part(d))) by { reveal(item); }
    assert(no_iter_cell(problem_part(d, cs))) by { reveal(item); }
    let blank = seq![line(""@, seq![])];
    assert(no_iter_cell(blank)) by { reveal(item); }
    lemma_no_iter_concat(presolve_part(d), problem_part(d, cs));
    lemma_no_iter_concat(presolve_part(d) + problem_part(d, cs), cones_part(cs));
    lemma_no_iter_concat(presolve_part(d) + problem_part(d, cs) + cones_part(cs), blank);
    lemma_no_iter_concat(presolve_part(d) + problem_part(d, cs) + cones_part(cs) + blank, settings_block(set, ls));
    lemma_printed_append(b, configuration_items(set, d, cs, ls));
}
// nothing but the print target changes
pub open spec fn only_stream(a: DefaultInfo<F>, b: DefaultInfo<F>) -> bool { a == (DefaultInfo::<F> { stream: a.stream, ..b }) }

// ------------------------------------------------------------------ the real functions
impl SupportedConeTag {
//@fn file=src/solver/core/cones/supportedcone.rs in="impl SupportedConeTag" name=as_str rules=R12 ret=r
//@contract
    ensures r@ == tag_name(*self), r.is_ascii(), 8 <= r@.len() <= 15,
//@pre
    proof {
        reveal_strlit("ZeroCone"); reveal_strlit("NonnegativeCone"); reveal_strlit("SecondOrderCone");
        reveal_strlit("ExponentialCone"); reveal_strlit("PowerCone"); reveal_strlit("GenPowerCone");
    }
//@end
}

//@fn file=src/solver/implementations/default/info_print.rs name=_bool_on_off ret=r
//@contract
    ensures r@ == on_off_word(v),
//@end

//@fn file=src/solver/implementations/default/info_print.rs name=print_nthreads rules=wfmt ret=r
//@contract
    ensures final(out).kind() == old(out).kind(),
        r is Ok ==> final(out).items() == old(out).items() + threads_part(nthreads),
//@post
    proof { if r_v is Ok { assert(out.items() =~= old(out).items() + threads_part(nthreads)); } }
//@end

//@fn file=src/solver/implementations/default/info_print.rs name=_get_precision_string ret=r
//@contract
    requires vstd::layout::size_of::<T>() * 8 <= usize::MAX,
    ensures r@ == usize_text((vstd::layout::size_of::<T>() * 8) as usize),
//@post
    proof { ax_usize_display((vstd::layout::size_of::<T>() * 8) as usize, r_v); }
//@end

//@fn file=src/solver/implementations/default/info_print.rs name=_print_conedims_by_type rules=R1,wfmt,strslice ret=r
//@contract
    ensures final(out).kind() == old(out).kind(),
        r is Ok ==> final(out).items() == old(out).items() + cone_line(cones.cones@, conetag),
//@pre
    let ghost cs = cones.cones@;
    let ghost it0 = out.items();
    proof { reveal(cone_line); }
//@iter 1
it
//@loop 1
        invariant
            cs == cones.cones@, it.seq().len() == cs.len(), forall|k: int| 0 <= k < cs.len() ==> *(#[trigger] it.seq()[k]) == cs[k],
            nvars@ == numels_of(cs.take(it.index@ as int), conetag),
//@body_start 1
        let ghost gi = it.index@ as int;
//@body_end 1
        proof { assert(cs.take(gi + 1).drop_last() =~= cs.take(gi)); assert(cs.take(gi + 1).last() == cs[gi]); }
//@after_stmt 8
    proof { assert(cs.take(cs.len() as int) =~= cs); }
    let ghost nv = nvars@;
    assert(nv == numels_of(cs, conetag) && nv.len() == count);
//@before_loop 2
        let ghost b2 = out.items();
//@iter 2
it
//@loop 2
            invariant nv == nvars@, it.seq().len() == nv.len() - 1, forall|k: int| 0 <= k < nv.len() - 1 ==> *(#[trigger] it.seq()[k]) == nv[k],
                out.kind() == old(out).kind(), out.items() =~= b2 + numel_cells(nv, it.index@ as int),
//@before_loop 3
        let ghost b3 = out.items();
//@iter 3
it
//@loop 3
            invariant nv == nvars@, nv.len() > 5, it.seq().len() == 4, forall|k: int| 0 <= k < 4 ==> *(#[trigger] it.seq()[k]) == nv[k],
                out.kind() == old(out).kind(), out.items() =~= b3 + numel_cells(nv, it.index@ as int),
//@post
    proof { reveal(cone_line); assert(out.items() =~= it0 + cone_line(cs, conetag)); }
//@end

impl DefaultInfo<F> {
//@fn file=src/solver/implementations/default/info_print.rs in="impl<T> DefaultInfo<T>" name=print_settings rules=R1,R2,R1f,wfmt ret=r
//@contract
    ensures only_stream(*final(self), *old(self)), final(self).stream.kind() == old(self).stream.kind(),
        r is Ok ==> final(self).stream.items() == old(self).stream.items() + settings_block(*settings, old(self).linsolver),
//@pre
    proof { ax_float_size(); }
    let ghost it0 = self.stream.items();
    let ghost ls = self.linsolver;
    let ghost mut g1 = it0;
//@after_stmt 7
    proof { g1 = out.items(); assert(g1 == settings_head_onto(it0, ls) + threads_part(ls.threads)); }
//@post
    proof {
        assert(self.stream.items() == settings_tail_onto(g1, *settings));
        lemma_settings_head(it0, ls); lemma_settings_tail(g1, *settings);
        assert(self.stream.items() =~= it0 + settings_block(*settings, ls));
    }
//@end

//@fn file=src/solver/implementations/default/info_print.rs in="impl<T> InfoPrint<T> for DefaultInfo<T>" name=print_configuration rules=R1,R2,R1f,wfmt ret=r
//@contract
    requires data.presolver matches Some(p) ==> p.mreduced <= p.mfull,
    ensures only_stream(*final(self), *old(self)), final(self).stream.kind() == old(self).stream.kind(),
        !settings.verbose ==> r is Ok && final(self).stream.items() == old(self).stream.items(),
        settings.verbose && r is Ok ==> final(self).stream.items()
            == old(self).stream.items() + configuration_items(*settings, *data, cones.cones@, old(self).linsolver),
        // unit solve's contract: the iteration column is untouched
        r is Ok ==> printed_of(final(self).stream.items()) == printed_of(old(self).stream.items()),
//@pre
    let ghost it0 = self.stream.items();
    let ghost ls = self.linsolver;
    let ghost cs = cones.cones@;
    let ghost mut g1 = it0; let ghost mut g2 = it0; let ghost mut g3 = it0; let ghost mut g4 = it0;
//@after_stmt 3
    proof { g1 = out.items(); assert(g1 =~= it0 + presolve_part(*data)); }
//@after_stmt 9
    proof { g2 = out.items(); assert(g2 == problem_onto(g1, *data, cs)); lemma_problem(g1, *data, cs); }
//@after_stmt 15
    proof { g3 = out.items(); assert(g3 =~= g2 + cones_part(cs)); }
//@after_stmt 16
    proof { g4 = out.items(); assert(g4 =~= g3 + seq![line(""@, seq![])]); }
//@post
    proof {
        let g5 = self.stream.items();
        assert(g5 == g4 + settings_block(*settings, ls));
        assert(g5 =~= it0 + configuration_items(*settings, *data, cs, ls));
        lemma_configuration_printed(it0, *settings, *data, cs, ls);
    }
//@end

//@fn file=src/solver/implementations/default/info_print.rs in="impl<T> InfoPrint<T> for DefaultInfo<T>" name=print_status_header rules=R1,R2,R1f,wfmt ret=r
//@contract
    ensures only_stream(*final(self), *old(self)), final(self).stream.kind() == old(self).stream.kind(),
        !settings.verbose ==> r is Ok && final(self).stream.items() == old(self).stream.items(),
        settings.verbose && r is Ok ==> final(self).stream.items() == old(self).stream.items() + header_items(),
        r is Ok ==> printed_of(final(self).stream.items()) == printed_of(old(self).stream.items()),
//@post
    proof { assert(self.stream.items() == header_onto(old(self).stream.items())); lemma_header(old(self).stream.items()); lemma_header_printed(old(self).stream.items()); }
//@end

//@fn file=src/solver/implementations/default/info_print.rs in="impl<T> InfoPrint<T> for DefaultInfo<T>" name=print_status rules=R1,R2,R1f,wfmt ret=r
//@contract
    ensures only_stream(*final(self), *old(self)), final(self).stream.kind() == old(self).stream.kind(),
        !settings.verbose ==> r is Ok && final(self).stream.items() == old(self).stream.items(),
        settings.verbose && r is Ok ==> final(self).stream.items() == old(self).stream.items() + status_line(*old(self)),
        // unit solve's contract: verbose ==> printed == old.printed.push(iterations), !verbose ==> unchanged
        settings.verbose && r is Ok ==> printed_of(final(self).stream.items()) == printed_of(old(self).stream.items()).push(old(self).iterations as nat),
        !settings.verbose ==> printed_of(final(self).stream.items()) == printed_of(old(self).stream.items()),
//@post
    proof { assert(self.stream.items() == status_line_onto(old(self).stream.items(), *old(self))); lemma_status_line(old(self).stream.items(), *old(self)); lemma_status_printed(old(self).stream.items(), *old(self)); }
//@end

//@fn file=src/solver/implementations/default/info_print.rs in="impl<T> InfoPrint<T> for DefaultInfo<T>" name=print_footer rules=R1,R2,R1f,wfmt ret=r
//@contract
    requires settings.verbose ==> dur_arg_ok(old(self).solve_time),
    ensures only_stream(*final(self), *old(self)), final(self).stream.kind() == old(self).stream.kind(),
        !settings.verbose ==> r is Ok && final(self).stream.items() == old(self).stream.items(),
        settings.verbose && r is Ok ==> final(self).stream.items() == old(self).stream.items() + footer_items(*old(self)),
        r is Ok ==> printed_of(final(self).stream.items()) == printed_of(old(self).stream.items()),
//@post
    proof { assert(self.stream.items() == footer_onto(old(self).stream.items(), *old(self))); lemma_footer(old(self).stream.items(), *old(self)); lemma_footer_printed(old(self).stream.items(), *old(self)); }
//@end

// ---- impl<T> ConfigurablePrintTarget for DefaultInfo<T>
//@fn file=src/solver/implementations/default/info_print.rs in="impl<T> ConfigurablePrintTarget for DefaultInfo<T>" name=print_to_stdout
//@contract
    ensures only_stream(*final(self), *old(self)), final(self).stream.kind() == TargetKind::Stdout, final(self).stream.items() == Seq::<Item>::empty(),
//@end
//@fn file=src/solver/implementations/default/info_print.rs in="impl<T> ConfigurablePrintTarget for DefaultInfo<T>" name=print_to_file
//@contract
    ensures only_stream(*final(self), *old(self)), final(self).stream.kind() == TargetKind::File, final(self).stream.items() == Seq::<Item>::empty(),
//@end
//@fn file=src/solver/implementations/default/info_print.rs in="impl<T> ConfigurablePrintTarget for DefaultInfo<T>" name=print_to_sink
//@contract
    ensures only_stream(*final(self), *old(self)), final(self).stream.kind() == TargetKind::Sink, final(self).stream.items() == Seq::<Item>::empty(),
//@end
//@fn file=src/solver/implementations/default/info_print.rs in="impl<T> ConfigurablePrintTarget for DefaultInfo<T>" name=print_to_buffer
//@contract
    ensures only_stream(*final(self), *old(self)), final(self).stream.kind() == TargetKind::Buffer, final(self).stream.items() == Seq::<Item>::empty(),
//@end
//@fn file=src/solver/implementations/default/info_print.rs in="impl<T> ConfigurablePrintTarget for DefaultInfo<T>" name=get_print_buffer ret=r
//@contract
    ensures only_stream(*final(self), *old(self)), final(self).stream.kind() == old(self).stream.kind(),
        final(self).stream.items() == old(self).stream.items(),
        r is Ok <==> old(self).stream.kind() == TargetKind::Buffer,
//@end
}

} // verus!
fn main() {}
