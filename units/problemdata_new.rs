// unit `problemdata_new` : the capping phase of `DefaultProblemData::new` (C09: "Right-hand sides at or above the bound in
// other cones are capped, never dropped").  float model: F-opaque (`min` is the uninterpreted float symbol f_min: the
// statement holds for every interpretation, in particular IEEE `min` with NaN passing through).
//
// STATEMENT SLICE of `DefaultProblemData::new` (DESIGN 10.1) under a hand-written header:
//   kept    : `let infbound = crate::get_infinity().as_T();`  `b_new.scalarop(|x| T::min(x, infbound));`
//   header  : `b_new` (the local that holds the presolved / copied right-hand side) becomes a `&mut Vec<T>` parameter
//   DROPPED : everything before (cone collapsing, to_triu, try_presolver / presolve, the unwrap_or_else copies) and after
//             (size, DefaultEquilibrationData::new, the norms, the struct literal).  That the capped vector is the one stored
//             in the record (`b: b_new`) is therefore NOT shown here; the bounded Kani harness `problemdata_new_caps_and_drops`
//             covers the composition on one problem shape.
// ASSUMED : `get_infinity()` returns the module-level bound in force (src/utils/infbounds.rs: an AtomicF64 behind lazy_static!,
//           outside Verus; same stand-in as unit `postprocess`); `scalarop` (prelude/vecmath_assumed.rs, discharged in unit
//           `vecmath`); the float prelude.
use vstd::prelude::*;
verus! {
//@include prelude/float_opaque.rs
//@include prelude/vecmath_assumed.rs

pub uninterp spec fn infinity_in_force() -> f64;
#[verifier::external_body]
pub fn get_infinity() -> (r: f64) ensures r == infinity_in_force() { unimplemented!() }
// the compile-time default of that bound (so that "the default instead of the value in force" is a failed obligation, not a compile error)
//@const file=src/lib.rs name=_INFINITY_DEFAULT
//@const file=src/utils/infbounds.rs name=INFINITY_DEFAULT

//@fn file=src/solver/implementations/default/problemdata.rs in="impl<T> DefaultProblemData<T>" name=new as=new_cap_rhs rules=R1 from="let infbound =" to="b_new.scalarop(" header="fn new<T: FloatT>(b_new: &mut Vec<T>)"
//@contract
    ensures
        // no row is dropped here ...
        final(b_new)@.len() == old(b_new)@.len(),
        // ... and every entry is capped at the bound in force: b_i <- min(b_i, infbound)
        forall|i: int| 0 <= i < old(b_new)@.len() ==> #[trigger] final(b_new)@[i] == f_min(old(b_new)@[i], f_lit(infinity_in_force())),
//@closure 1
F
(r: F) ensures r == f_min(x, infbound)
//@end

} // verus!
fn main() {}
