#![allow(non_snake_case)]
// unit `chordal_augment` : the STANDARD form of the chordal decomposition as a whole - augmentation and reversal (C18)
// (feature `sdp`: `//@features serde,sdp`, as in unit chordal_compact).  Float model: F-opaque for everything structural; the reversal
// (`s = H s_tail`, `z = H z_tail` averaged) additionally in F-real, because the gemv contract of unit csc_math is stated there.
//
// The decomposition is described by sequence-valued spec functions of (init_cones, spatterns) - no quantified "there is a slot" clauses:
//   pk(sp, i)      number of patterns consumed before cone i = the explicit state of the peekable pattern iterator; is_dec(sp, i) = cone i is decomposed
//   row_off(i)     first row of cone i;  dim_spec / ovl_spec: rows of the decomposed cones / overlaps, per cone
//   hI_spec(ci, i) the row indices of H for the cones < i:  id_blk(row, nvars) for a kept cone, for a decomposed one pat_blk = for every clique in
//                  post order sub_blk(c, row) = the packed upper triangle (a, b) -> row + packed(c[a], c[b]), c = the clique mapped through
//                  `ordering` and sorted (sorted_of: the sort result as an uninterpreted function of its input)
//   cones_spec     ZeroConeT(m), then per cone the cone itself or PSDTriangleConeT(nblk[j]) for its cliques
// PROVED (real text, unbounded; panic-freedom = every index / overflow / unwrap / assert! obligation, plus the clause given):
//   decomp/augment_standard.rs
//     add_subblock_map, decompose_with_cone   (again, in sequence form: H_I = old ++ sub_blk(..) / old ++ id_blk(..); cone copied)
//     decompose_with_sparsity_pattern          H_I = old ++ pat_blk(pattern, row, n_cliques), cones_new = old ++ one PSD cone of size nblk[j] per clique;
//         every new entry lies in row .. row + tri(dim); as many entries as get_decomposed_dim_and_overlaps counts (map / collect closure: rule mapcollect)
//     find_standard_H_and_cones                (peekable iterator: rule peekslice, its position is pk) cones_new == cones_spec, H_I == hI_spec, and
//         H = is_selector(hI_spec): one column per decomposed row, exactly ONE entry per column, value 1, in row hI_spec[c] < m; self untouched;
//         `assert!(matches!(cone, PSDTriangleConeT(_)))` never fires, the assert_eq! of new_from_triplets hold (|H_I| == lenH)
//     find_H_col_dimension
//     decomp_augment_standard                  P_new = blockdiag(P, 0_k) (padded_P: P's arrays + k empty columns), q_new = q ++ 0_k, b_new = b ++ 0_k,
//         A_new = [A H; 0 -I] (aug_A: columns of A unchanged; column n + l = column l of H followed by (m + l, -1)), sizes (n + k)^2 and (m + k) x (n + k),
//         both `.unwrap()` of the concatenations succeed, H stored in self.H, nothing else of self changes.  Proved from the contracts of
//         blockdiag / hvcat (2 x 2 grid literal; lemma_bd_pair, lemma_hv_grid2 evaluate the block sums) and of zeros / identity / negate
//   decomp/reverse_standard.rs
//     number_of_overlaps_in_rows               (position_all: rule posall = its body as a loop) the rows whose sum of entries exceeds one, ascending,
//         exactly those, each with its sum
//     decomp_reverse_standard                  s[r] = SUM of the s_tail[c] with hI[c] == r ("slack is the sum of the clique blocks"),
//         z[r] = that sum of z_tail divided by the number of columns naming r where it is > 1, the plain sum else; x untouched, lengths kept
//   chordal_info.rs: ChordalInfo::get_decomposed_dim_and_overlaps (peekable + match guard: == (dim_spec, ovl_spec)), init_cone_count,
//     decomposable_cone_count, final_psd_cones_added (fold: sum of n_cliques - #patterns, no underflow), final_cone_count
//   algebra: CscMatrix::{new, spalloc (units/inc/csc_alloc.rs), zeros, identity, ncols, negate} in array form; SupportedConeT::nvars with the PSD arm
//     (tri(dim)); SuperNodeTree::get_nblk; DefaultVariables::dims
// ASSUMED (hand-written stand-ins):
//   CscMatrix::blockdiag, hvcat      contract text of unit csc_utils (PROVED there), with its vocabulary (bd_*, hv_*, grid_ok) copied verbatim
//   CscMatrix::gemv, row_sums        contract text of unit csc_math (PROVED there; total_n, rowsum copied verbatim)
//   CscMatrix::new_from_triplets     NOT the proved text: unit csc_build proves dims_ok + strictly sorted columns + dense(result) == fold of the
//       triplets (its sorting prefix assumed).  Here only the special case used is stated, in array form: for J = 0..n (one triplet per column)
//       colptr[c] == c, rowval == I, nzval == V.  It follows from the csc_build contract (a column with exactly one triplet stores exactly that
//       entry); that derivation is NOT mechanised -> weakest link of this unit
//   SuperNodeTree::get_clique (text of unit chordal_snode), get_decomposed_dim_and_overlaps (text of unit chordal_tree), coord_to_upper_triangular_index,
//       triangular_number (unit scalarmath), VectorMath::copy_from (unit vecmath), VertexSet (units/inc/chordal_sets.rs)
//   std: Peekable<slice::Iter> as SlicePeek (len = not yet yielded, peek = Some(&&s[pos]) / None, next advances), Vec<usize>::sort as usize_sort
//       (same members, nondecreasing, strictly ascending for distinct members, result = sorted_of(input)); derived Clone of SupportedConeT returns
//       an equal value; vstd's own specs for `(0usize..n).collect()`, `vec![x; n]`, slice ranges
//   EXTRACTOR (additive): rules peekslice, mapcollect, posall, vecsort:NAMES, and hint `v` of zipidx (owned Vec of Copy items zipped by value)
// PRECONDITIONS and the call sites:
//   ci_wf (what ChordalInfo::new leaves behind): pattern k belongs to a PSD cone of dimension |ordering| < 2^31; ordering maps into 0..|ordering|;
//     every clique: supernode and separator duplicate-free, DISJOINT, vertices < |ordering|, nblk[j] = |snode| + |separator| (calculate_block_dimensions,
//     unit chordal_tree); n_cliques >= 1; totals fit a usize.  By inspection of analyse_psdtriangle_sparsity_pattern / SparsityPattern::new /
//     reorder_snode_consecutively; NOT proved anywhere.  If a vertex were in both the supernode and the separator of a clique, get_clique (a union)
//     would be shorter than nblk and the assert_eq!(I.len(), J.len()) of new_from_triplets would panic.
//   decomp_augment_standard `A.m == aug_m` (rows of A == total dimension of init_cones): VIOLABLE - observation O7 / D2 re-examined.
//     DefaultProblemData::new calls try_chordal_info(A, b, &cones, ..) on the data BEFORE presolve and decomp_augment on the PRESOLVED A_new / b_new.
//     Legal input: cones [NonnegativeConeT(1), PSDTriangleConeT(d)], b[0] >= 1e20 (presolve_enable, default) so that the presolver drops row 0,
//     a PSD block with a chordal, non-dense aggregate pattern and chordal_decomposition_compact = false.  Then H has m rows (init_cones) but
//     A has m - 1: the grid [A H; Z -I] is not grid_ok, hvcat returns Err and `.unwrap()` panics - this is exactly the precondition above, used in
//     lemma_hv_grid2 (`A.m == H.m`).  (Also init_cones still starts with the dropped nonnegative row, so even without the panic the rows of H
//     would be shifted by one against the rows of A.)  With the compact form the same mismatch corrupts the row ranges silently (D2 of unit
//     chordal_compact).  Not fixed.
//   bd_blk_ok(P), bd_blk_ok(A) (colptr from 0, monotone, rows < m): P is to_triu(P) or the user's; a user-supplied A is never validated.
//   decomp_reverse_standard: sel_wf(H) is the `is_selector` that decomp_augment_standard ensures (H is private, untouched in between);
//     new_vars = DefaultVariables::new(init_dims) with init_dims.1 = A.nrows() = H.m when the cone dimensions add up to the rows of A
//     (_check_dimensions); old_vars of the decomposed problem has (m + k) rows = A_new.m.  `x > T::one()` compares a float sum of ones: exact.
// NOT PROVED / what would close "every entry of the original constraint rows appears exactly once":
//   kept cones: immediate from id_blk (row r of the cone is H_I[off + r - row], once);  decomposed cones: row row + packed(u, v) occurs once per
//   clique that contains u and v (needs `ordering` injective + lemma_subblock_injective of unit chordal_decomp), rows whose (u, v) lies in no clique do
//   NOT occur in H_I at all - they are all-zero rows of [A b] provided the cliques cover the aggregate pattern (C17, not proved) - so
//   "every row index in 0..m occurs in H_I" is false as stated and true only modulo structural zeros.  The semantic equivalence of the two
//   problems (s in PSD <=> clique blocks PSD + completion) is mathematics outside this framework.
// DROPPED (still not under contract): the compact form - find_compact_A_b_and_cones, add_entries_with_sparsity_pattern, the sort of
//   get_block_indices, decomp_augment_compact, the loop of decomp_reverse_compact (their helpers are in units chordal_compact / chordal_decomp;
//   rules peekslice / mapcollect / vecsort written here are what they need next) - and ChordalInfo::new / find_sparsity_patterns /
//   analyse_psdtriangle_sparsity_pattern (`&mut nz_mask[rowrange]`, find_graph -> QDLDL), psd_completion.  Ran out of time, not out of method.
// MUTATION ROUND (scratch copy, one edit at a time; each fails the named obligation): Z / negI swapped, negI not negated, Z dims swapped,
//   blockdiag order, q copy offset, b_new not padded, H not stored (decomp_augment_standard); ZeroConeT dropped / pushed last, `row +=` only for kept
//   cones, Hdims swapped, peek against coneidx + 1 (find_standard_H_and_cones); sort dropped, get_nblk(0) (decompose_with_sparsity_pattern);
//   (v[j], v[j]), 0..j (add_subblock_map); push(row) (decompose_with_cone); `sum_overlaps += cols` (get_decomposed_dim_and_overlaps); `>=` for `>`
//   (number_of_overlaps_in_rows); s divided instead of z, z from the s tail, gemv accumulating (decomp_reverse_standard).  22 of 22 caught; survivors: none
//   found.  Equivalent by ci_wf (not a survivor): PSDTriangleConeT(c.len()) for get_nblk(i).
use vstd::prelude::*;
use crate::SupportedConeT::{PSDTriangleConeT, ZeroConeT};
verus! {
global size_of usize == 8;
//@features serde,sdp
//@include prelude/float_opaque.rs
//@include prelude/float_real_axioms.rs
//@include prelude/vecmath_assumed.rs
//@include prelude/std_assumed.rs
//@include units/inc/chordal_sets.rs
//@struct file=src/algebra/csc/core.rs name=CscMatrix
//@enum file=src/algebra/error_types.rs name=MatrixConcatenationError rules=R12 derive="Debug, PartialEq, Eq, Clone, Copy, Structural"
//@enum file=src/solver/core/cones/supportedcone.rs name=SupportedConeT rules=R12
//@struct file=src/solver/chordal/supernode_tree.rs name=SuperNodeTree
//@struct file=src/solver/chordal/sparsity_pattern.rs name=SparsityPattern
//@struct file=src/solver/chordal/chordal_info.rs name=ConeMapEntry
//@struct file=src/solver/chordal/chordal_info.rs name=ChordalInfo
//@struct file=src/solver/implementations/default/variables.rs name=DefaultVariables rules=R2
pub type Cone = SupportedConeT<F>;
// ASSUMED: the derived Clone of the cone enum returns an equal value
impl Clone for SupportedConeT<F> { #[verifier::external_body] fn clone(&self) -> (r: Self) ensures r == *self { unimplemented!() } }

// ---- packed upper-triangle indices (contracts of unit scalarmath, PROVED there) ----
pub open spec fn tri(k: int) -> int { k * (k + 1) / 2 }
pub open spec fn packed(a: int, b: int) -> int { if a <= b { tri(b) + a } else { tri(a) + b } }
pub proof fn lemma_consec_even(k: int) requires k >= 0 ensures k * (k + 1) % 2 == 0 decreases k
{
    if k > 0 {
        lemma_consec_even(k - 1);
        assert(k * (k + 1) == (k - 1) * k + 2 * k) by (nonlinear_arith);
    } else {
        assert(k * (k + 1) == 0) by (nonlinear_arith) requires k == 0;
    }
}
pub proof fn lemma_tri_step(k: int) requires k >= 0 ensures tri(k + 1) == tri(k) + k + 1, tri(k) >= 0
{
    assert(k * (k + 1) >= 0) by (nonlinear_arith) requires k >= 0;
    assert((k + 1) * (k + 2) == k * (k + 1) + 2 * (k + 1)) by (nonlinear_arith);
    lemma_consec_even(k);
}
pub proof fn lemma_tri_mono(a: int, b: int) requires 0 <= a <= b ensures tri(a) <= tri(b), 0 <= tri(a) decreases b - a
{
    if a < b { lemma_tri_step(b - 1); lemma_tri_mono(a, b - 1); } else { lemma_tri_step(a); }
}
// entries of a d x d block have packed indices below tri(d)
pub proof fn lemma_packed_lt(a: int, b: int, d: int)
    requires 0 <= a < d, 0 <= b < d,
    ensures 0 <= packed(a, b) < tri(d),
{
    let mx = if a <= b { b } else { a };
    lemma_tri_step(mx); lemma_tri_mono(mx + 1, d);
}
#[verifier::external_body]
fn coord_to_upper_triangular_index(coord: (usize, usize)) -> (r: usize)
    requires coord.0 < 0x8000_0000, coord.1 < 0x8000_0000,
    ensures r == packed(coord.0 as int, coord.1 as int),
{ unimplemented!() }
#[verifier::external_body]
fn triangular_number(k: usize) -> (r: usize)
    requires k < 0x1_0000_0000,
    ensures r == tri(k as int),
{ unimplemented!() }

// ---- the user-facing cone enum (real, feature sdp on) ----
pub open spec fn nvars_spec(c: Cone) -> int {
    match c {
        SupportedConeT::ZeroConeT(d) => d as int,
        SupportedConeT::NonnegativeConeT(d) => d as int,
        SupportedConeT::SecondOrderConeT(d) => d as int,
        SupportedConeT::ExponentialConeT() => 3,
        SupportedConeT::PowerConeT(_) => 3,
        SupportedConeT::GenPowerConeT(a, d2) => a@.len() + d2,
        SupportedConeT::PSDTriangleConeT(d) => tri(d as int),
    }
}
impl SupportedConeT<F> {
//@fn file=src/solver/core/cones/supportedcone.rs in="impl<T> SupportedConeT<T>" name=nvars rules=R12,R2,R1 ret=r
//@contract
    requires nvars_spec(*self) <= usize::MAX, self matches SupportedConeT::PSDTriangleConeT(d) ==> d < 0x1_0000_0000,
    ensures r == nvars_spec(*self),
//@end
}

// ---- ASSUMED std pieces (rules peekslice, vecsort) ----
// Peekable<slice::Iter<T>>: ghost state = (the slice, number of elements already yielded)
pub struct SlicePeek<'a, T> { pub _p: &'a [T], pub st: Ghost<(Seq<T>, int)> }
impl<'a, T> SlicePeek<'a, T> {
    pub open spec fn all(&self) -> Seq<T> { self.st@.0 }
    pub open spec fn pos(&self) -> int { self.st@.1 }
    #[verifier::external_body] pub fn len(&self) -> (r: usize) ensures r == self.all().len() - self.pos() { unimplemented!() }
    #[verifier::external_body] pub fn peek(&mut self) -> (r: Option<&&'a T>)
        ensures final(self).all() == old(self).all(), final(self).pos() == old(self).pos(),
            old(self).pos() < old(self).all().len() ==> r == Some(&&old(self).all()[old(self).pos()]),
            old(self).pos() >= old(self).all().len() ==> r is None,
    { unimplemented!() }
    #[verifier::external_body] pub fn next(&mut self) -> (r: Option<&'a T>)
        ensures final(self).all() == old(self).all(),
            old(self).pos() < old(self).all().len() ==> r == Some(&old(self).all()[old(self).pos()]) && final(self).pos() == old(self).pos() + 1,
            old(self).pos() >= old(self).all().len() ==> r is None && final(self).pos() == old(self).pos(),
    { unimplemented!() }
}
#[verifier::external_body]
pub fn slice_peekable<'a, T>(s: &'a Vec<T>) -> (r: SlicePeek<'a, T>) ensures r.all() == s@, r.pos() == 0 { unimplemented!() }
// the result of sorting is a function of the input (uninterpreted); what is ASSUMED of it is the documented contract of the std sort
pub uninterp spec fn sorted_of(s: Seq<usize>) -> Seq<usize>;
#[verifier::external_body]
pub fn usize_sort(v: &mut Vec<usize>)
    ensures final(v)@ == sorted_of(old(v)@), same_members(final(v)@, old(v)@), nondecreasing(final(v)@),
        old(v)@.no_duplicates() ==> final(v)@.no_duplicates() && ascending(final(v)@),
{ v.sort() }

// ---- the rows of H, as a sequence-valued function of the decomposition ----
// column b of the packed upper triangle of the clique block: entries (0..=b, b)
pub open spec fn sub_col(c: Seq<usize>, row: int, b: int) -> Seq<usize> { Seq::new((b + 1) as nat, |a: int| (row + packed(c[a] as int, c[b] as int)) as usize) }
pub open spec fn sub_blk(c: Seq<usize>, row: int, nb: int) -> Seq<usize> decreases nb { if nb <= 0 { Seq::empty() } else { sub_blk(c, row, nb - 1) + sub_col(c, row, nb - 1) } }
pub open spec fn id_blk(row: int, n: int) -> Seq<usize> { Seq::new(n as nat, |t: int| (row + t) as usize) }
pub open spec fn cpos(t: SuperNodeTree, j: int) -> int { t.snode_post@[j] as int }
pub open spec fn snd(t: SuperNodeTree, j: int) -> Seq<usize> { t.snode@[cpos(t, j)]@ }
pub open spec fn sep(t: SuperNodeTree, j: int) -> Seq<usize> { t.separators@[cpos(t, j)]@ }
pub open spec fn clique_of(t: SuperNodeTree, j: int) -> Seq<usize> { snd(t, j) + sep(t, j) }
pub open spec fn map_ord(s: Seq<usize>, ord: Seq<usize>) -> Seq<usize> { Seq::new(s.len(), |i: int| ord[s[i] as int]) }
// the clique of order j, mapped back through the ordering and sorted
pub open spec fn clique_sorted(p: SparsityPattern, j: int) -> Seq<usize> { sorted_of(map_ord(clique_of(p.sntree, j), p.ordering@)) }
pub open spec fn pat_blk(p: SparsityPattern, row: int, nj: int) -> Seq<usize> decreases nj {
    if nj <= 0 { Seq::empty() } else { pat_blk(p, row, nj - 1) + sub_blk(clique_sorted(p, nj - 1), row, clique_sorted(p, nj - 1).len() as int) } }
pub open spec fn psd_cones(nblk: Seq<usize>, nj: int) -> Seq<Cone> { Seq::new(nj as nat, |t: int| SupportedConeT::PSDTriangleConeT(nblk[t])) }
pub open spec fn sum_tri_nblk(nblk: Seq<usize>, k: int) -> int decreases k { if k <= 0 { 0 } else { sum_tri_nblk(nblk, k - 1) + tri(nblk[k - 1] as int) } }
pub open spec fn sum_tri_sep(t: SuperNodeTree, k: int) -> int decreases k { if k <= 0 { 0 } else { sum_tri_sep(t, k - 1) + tri(sep(t, k - 1).len() as int) } }
pub proof fn lemma_sums_mono(t: SuperNodeTree, nblk: Seq<usize>, a: int, b: int)
    requires 0 <= a <= b,
    ensures 0 <= sum_tri_nblk(nblk, a) <= sum_tri_nblk(nblk, b), 0 <= sum_tri_sep(t, a) <= sum_tri_sep(t, b),
    decreases b,
{
    if a < b { lemma_sums_mono(t, nblk, a, b - 1); lemma_tri_step(nblk[b - 1] as int); lemma_tri_step(sep(t, b - 1).len() as int); }
    else if a > 0 { lemma_sums_mono(t, nblk, a - 1, a - 1); lemma_tri_step(nblk[a - 1] as int); lemma_tri_step(sep(t, a - 1).len() as int); }
}
pub proof fn lemma_sub_blk_len(c: Seq<usize>, row: int, nb: int)
    requires nb >= 0, ensures sub_blk(c, row, nb).len() == tri(nb), decreases nb,
{ if nb > 0 { lemma_sub_blk_len(c, row, nb - 1); lemma_tri_step(nb - 1); } else { assert(tri(0) == 0) by (compute); } }
// every entry of the block of a clique with vertices below d names a row of the cone (rows row .. row + tri(d))
pub proof fn lemma_sub_blk_bound(c: Seq<usize>, row: int, nb: int, d: int)
    requires 0 <= nb <= c.len(), 0 <= row, row + tri(d) <= usize::MAX, forall|k: int| 0 <= k < c.len() ==> #[trigger] c[k] < d,
    ensures forall|k: int| 0 <= k < sub_blk(c, row, nb).len() ==> row <= #[trigger] sub_blk(c, row, nb)[k] < row + tri(d),
    decreases nb,
{
    if nb > 0 {
        lemma_sub_blk_bound(c, row, nb - 1, d);
        let pre = sub_blk(c, row, nb - 1); let col = sub_col(c, row, nb - 1);
        assert forall|k: int| 0 <= k < sub_blk(c, row, nb).len() implies row <= #[trigger] sub_blk(c, row, nb)[k] < row + tri(d) by {
            if k >= pre.len() { let a = k - pre.len(); assert(sub_blk(c, row, nb)[k] == col[a]); lemma_packed_lt(c[a] as int, c[nb - 1] as int, d); }
            else { assert(sub_blk(c, row, nb)[k] == pre[k]); }
        }
    }
}

// ---- well-formedness of a sparsity pattern as the decomposition code reads it (established by SparsityPattern::new, see header) ----
pub open spec fn clique_wf(p: SparsityPattern, j: int) -> bool {
    let t = p.sntree;
    &&& cpos(t, j) < t.snode@.len() && cpos(t, j) < t.separators@.len()
    &&& snd(t, j).no_duplicates() && sep(t, j).no_duplicates() && disjoint(snd(t, j), sep(t, j))
    &&& t.nblk->0@[j] == snd(t, j).len() + sep(t, j).len()
    &&& forall|k: int| 0 <= k < clique_of(t, j).len() ==> #[trigger] clique_of(t, j)[k] < p.ordering@.len()
}
pub open spec fn pat_wf(p: SparsityPattern) -> bool {
    let t = p.sntree;
    &&& t.nblk is Some && 1 <= t.n_cliques <= t.nblk->0@.len() && t.n_cliques <= t.snode_post@.len()
    &&& p.ordering@.len() < 0x8000_0000
    &&& forall|v: int| 0 <= v < p.ordering@.len() ==> #[trigger] p.ordering@[v] < p.ordering@.len()
    &&& forall|j: int| 0 <= j < t.n_cliques ==> #[trigger] clique_wf(p, j)
}
// the members of b that are not in a (contract vocabulary of get_clique, unit chordal_snode)
pub open spec fn not_in(a: Seq<usize>, b: Seq<usize>, k: int) -> Seq<usize> decreases k {
    if k <= 0 { Seq::empty() } else if a.contains(b[k - 1]) { not_in(a, b, k - 1) } else { not_in(a, b, k - 1).push(b[k - 1]) }
}
pub proof fn lemma_not_in_disjoint(a: Seq<usize>, b: Seq<usize>, k: int)
    requires disjoint(a, b), 0 <= k <= b.len(), ensures not_in(a, b, k) == b.take(k), decreases k,
{
    if k > 0 { lemma_not_in_disjoint(a, b, k - 1); assert(b.contains(b[k - 1])); assert(b.take(k) =~= b.take(k - 1).push(b[k - 1])); }
    else { assert(b.take(0) =~= Seq::<usize>::empty()); }
}
impl SuperNodeTree {
    // ASSUMED here, PROVED in unit chordal_snode (contract text of get_clique there)
    #[verifier::external_body] pub fn get_clique(&self, i: usize) -> (r: VertexSet)
        requires
            i < self.snode_post@.len(), self.snode_post@[i as int] < self.snode@.len(), self.snode_post@[i as int] < self.separators@.len(),
            self.snode@[self.snode_post@[i as int] as int]@.len() < 0x8000_0000, self.separators@[self.snode_post@[i as int] as int]@.len() < 0x8000_0000,
        ensures
            forall|x: usize| #[trigger] r@.contains(x) <==> self.snode@[self.snode_post@[i as int] as int]@.contains(x) || self.separators@[self.snode_post@[i as int] as int]@.contains(x),
            self.snode@[self.snode_post@[i as int] as int]@.no_duplicates() && self.separators@[self.snode_post@[i as int] as int]@.no_duplicates() ==> r@.no_duplicates()
                && r@ == self.snode@[self.snode_post@[i as int] as int]@ + not_in(self.snode@[self.snode_post@[i as int] as int]@, self.separators@[self.snode_post@[i as int] as int]@, self.separators@[self.snode_post@[i as int] as int]@.len() as int),
    { unimplemented!() }
    // ASSUMED here, PROVED in unit chordal_tree
    #[verifier::external_body] pub fn get_decomposed_dim_and_overlaps(&self) -> (r: (usize, usize))
        requires
            self.n_cliques <= self.snode_post@.len(),
            forall|i: int| 0 <= i < self.n_cliques ==> #[trigger] self.snode_post@[i] < self.snode@.len() && self.snode_post@[i] < self.separators@.len(),
            self.nblk is Some, self.n_cliques <= self.nblk->0@.len(),
            forall|i: int| 0 <= i < self.n_cliques ==> #[trigger] self.nblk->0@[i] < 0x1_0000_0000,
            forall|i: int| 0 <= i < self.n_cliques ==> #[trigger] sep(*self, i).len() < 0x1_0000_0000,
            sum_tri_nblk(self.nblk->0@, self.n_cliques as int) <= usize::MAX, sum_tri_sep(*self, self.n_cliques as int) <= usize::MAX,
        ensures r.0 == sum_tri_nblk(self.nblk->0@, self.n_cliques as int), r.1 == sum_tri_sep(*self, self.n_cliques as int),
    { unimplemented!() }
//@fn file=src/solver/chordal/supernode_tree.rs in="impl SuperNodeTree" name=get_nblk ret=r
//@contract
    requires self.nblk is Some, i < self.nblk->0@.len(),
    ensures r == self.nblk->0@[i as int],
//@end
}

//@fn file=src/solver/chordal/decomp/augment_standard.rs name=add_subblock_map rules=R20
//@contract
    requires
        forall|k: int| 0 <= k < clique_vertices@.len() ==> #[trigger] clique_vertices@[k] < 0x8000_0000,
        forall|a: int, b: int| 0 <= a <= b < clique_vertices@.len() ==> row_start + packed(#[trigger] clique_vertices@[a] as int, #[trigger] clique_vertices@[b] as int) <= usize::MAX,
    ensures
        // C18: the packed upper triangle of the clique sub-block is appended column by column: entry (a, b), a <= b, names row
        // row_start + packed(v[a], v[b]) of the original cone; nothing else changes
        final(H_I)@ == old(H_I)@ + sub_blk(clique_vertices@, row_start as int, clique_vertices@.len() as int),
//@pre
    let ghost h0 = H_I@;
    let ghost cv = clique_vertices@;
    proof { assert(clique_vertices@.len() == clique_vertices.len()); }
//@loop 1
        invariant
            v@ == cv, cv == clique_vertices@, cv.len() <= usize::MAX,
            forall|k: int| 0 <= k < cv.len() ==> #[trigger] cv[k] < 0x8000_0000,
            forall|a: int, b: int| 0 <= a <= b < cv.len() ==> row_start + packed(#[trigger] cv[a] as int, #[trigger] cv[b] as int) <= usize::MAX,
            H_I@ =~= h0 + sub_blk(cv, row_start as int, $var1 as int),
//@body_start 1
        let ghost gj = $var1 as int;
        let ghost h1 = H_I@;
//@loop 2
            invariant
                v@ == cv, cv.len() <= usize::MAX, gj == $var1, 0 <= gj < cv.len(),
                forall|k: int| 0 <= k < cv.len() ==> #[trigger] cv[k] < 0x8000_0000,
                forall|a: int, b: int| 0 <= a <= b < cv.len() ==> row_start + packed(#[trigger] cv[a] as int, #[trigger] cv[b] as int) <= usize::MAX,
                H_I@ =~= h1 + Seq::new($var2 as nat, |a: int| (row_start + packed(cv[a] as int, cv[gj] as int)) as usize),
//@body_start 2
            proof { assert(row_start + packed(cv[$var2 as int] as int, cv[gj] as int) <= usize::MAX); }
//@body_end 1
        proof { assert(H_I@ =~= h0 + sub_blk(cv, row_start as int, gj + 1)); }
//@end

//@fn file=src/solver/chordal/decomp/augment_standard.rs name=decompose_with_cone rules=R1
//@contract
    requires row + nvars_spec(*cone) <= usize::MAX, cone matches SupportedConeT::PSDTriangleConeT(d) ==> d < 0x1_0000_0000,
    ensures
        // C18: a cone that is not decomposed keeps its rows: H gets the identity block row .. row + nvars, the cone is copied
        final(H_I)@ == old(H_I)@ + id_blk(row as int, nvars_spec(*cone)),
        final(cones_new)@ == old(cones_new)@.push(*cone),
//@pre
    let ghost h0 = H_I@;
//@loop 1
        invariant
            row + nvars_spec(*cone) <= usize::MAX, *cones_new == *old(cones_new),
            H_I@ =~= h0 + id_blk(row as int, $var1 as int),
//@post
    proof { assert(H_I@ =~= h0 + id_blk(row as int, nvars_spec(*cone))); }
//@end

//@fn file=src/solver/chordal/decomp/augment_standard.rs name=decompose_with_sparsity_pattern rules=R1,mapcollect,R5,vecsort:c
//@contract
    requires
        pat_wf(*spattern), row + tri(spattern.ordering@.len() as int) <= usize::MAX,
    ensures
        // C18: one block per clique, in post order: the packed upper triangle of the clique (vertices mapped back through the ordering
        // and sorted) inside the rows of the original cone; one PSD cone of the clique's size per clique; nothing else changes
        final(H_I)@ == old(H_I)@ + pat_blk(*spattern, row as int, spattern.sntree.n_cliques as int),
        final(cones_new)@ == old(cones_new)@ + psd_cones(spattern.sntree.nblk->0@, spattern.sntree.n_cliques as int),
        // every new entry names a row of the original cone
        forall|k: int| old(H_I)@.len() <= k < final(H_I)@.len() ==> row <= #[trigger] final(H_I)@[k] < row + tri(spattern.ordering@.len() as int),
        // the new part has as many entries as the clique blocks have (cf. get_decomposed_dim_and_overlaps)
        final(H_I)@.len() == old(H_I)@.len() + sum_tri_nblk(spattern.sntree.nblk->0@, spattern.sntree.n_cliques as int),
//@pre
    let ghost h0 = H_I@;
    let ghost c0 = cones_new@;
    let ghost ord = spattern.ordering@;
    let ghost dim = spattern.ordering@.len() as int;
    let ghost nb = spattern.sntree.nblk->0@;
//@loop 1
        invariant
            sntree == &spattern.sntree, pat_wf(*spattern), row + tri(dim) <= usize::MAX, ord == spattern.ordering@, dim == ord.len(), nb == spattern.sntree.nblk->0@,
            H_I@ =~= h0 + pat_blk(*spattern, row as int, $var1 as int),
            cones_new@ =~= c0 + psd_cones(nb, $var1 as int),
            forall|k: int| h0.len() <= k < H_I@.len() ==> row <= #[trigger] H_I@[k] < row + tri(dim),
            H_I@.len() == h0.len() + sum_tri_nblk(nb, $var1 as int),
//@body_start 1
        let ghost gi = $var1 as int;
        let ghost h1 = H_I@;
        let ghost t = spattern.sntree;
        proof {
            assert(clique_wf(*spattern, gi));
            assert forall|q: int| 0 <= q < snd(t, gi).len() implies #[trigger] snd(t, gi)[q] < dim by { assert(clique_of(t, gi)[q] == snd(t, gi)[q]); }
            assert forall|q: int| 0 <= q < sep(t, gi).len() implies #[trigger] sep(t, gi)[q] < dim by { assert(clique_of(t, gi)[snd(t, gi).len() + q] == sep(t, gi)[q]); }
            lemma_nodup_bounded(snd(t, gi), dim); lemma_nodup_bounded(sep(t, gi), dim);
        }
//@after "let clique = sntree.get_clique(i);"
        proof {
            lemma_not_in_disjoint(snd(t, gi), sep(t, gi), sep(t, gi).len() as int);
            assert(sep(t, gi).take(sep(t, gi).len() as int) =~= sep(t, gi));
            assert(clique@ == clique_of(t, gi));
        }
//@iter 2
it2
//@loop 2
            invariant
                it2.seq().len() == clique@.len(), forall|k: int| 0 <= k < clique@.len() ==> *(#[trigger] it2.seq()[k]) == clique@[k],
                ord == spattern.ordering@, forall|k: int| 0 <= k < clique@.len() ==> #[trigger] clique@[k] < ord.len(),
                mc_out1@ =~= Seq::new(it2.index@ as nat, |q: int| ord[clique@[q] as int]),
//@body_start 2
            proof { assert(*v_r == clique@[it2.index@ as int]); }
//@before "add_subblock_map(H_I, &c, row);"
        proof {
            let mapped = map_ord(clique_of(t, gi), ord);
            assert(c@ == clique_sorted(*spattern, gi));
            assert forall|k: int| 0 <= k < c@.len() implies #[trigger] c@[k] < dim by {
                assert(c@.contains(c@[k]));
                assert(mapped.contains(c@[k]));
                let q = choose|q: int| 0 <= q < mapped.len() && mapped[q] == c@[k];
                assert(mapped[q] == ord[clique_of(t, gi)[q] as int]);
            }
            assert forall|a: int, b: int| 0 <= a <= b < c@.len() implies row + packed(#[trigger] c@[a] as int, #[trigger] c@[b] as int) <= usize::MAX by {
                lemma_packed_lt(c@[a] as int, c@[b] as int, dim);
            }
            lemma_sub_blk_bound(c@, row as int, c@.len() as int, dim);
            lemma_sub_blk_len(c@, row as int, c@.len() as int);
        }
//@body_end 1
        proof {
            assert(H_I@ =~= h0 + pat_blk(*spattern, row as int, gi + 1));
            assert(cones_new@ =~= c0 + psd_cones(nb, gi + 1));
            assert(c@.len() == nb[gi]);
        }
//@end

// ---- sparse matrices: constructors re-proved here in array form, concatenation contracts carried over from unit csc_utils ----
impl CscMatrix<F> {
    pub open spec fn colptr_ok_u(&self) -> bool {
        &&& self.colptr@.len() == self.n + 1
        &&& self.colptr@[0] == 0
        &&& self.rowval@.len() == self.nzval@.len()
        &&& self.colptr@[self.n as int] == self.nzval@.len()
        &&& forall|a: int, b: int| 0 <= a <= b <= self.n ==> self.colptr@[a] <= self.colptr@[b]
    }
    pub open spec fn in_col_u(&self, k: int, j: int) -> bool { 0 <= j < self.n && self.colptr@[j] <= k < self.colptr@[j + 1] }
//@include units/inc/csc_alloc.rs
//@fn file=src/algebra/csc/core.rs in="ShapedMatrix for CscMatrix<T>" name=ncols rules=R1 ret=r
//@contract
    ensures r == self.n
//@end
//@fn file=src/algebra/csc/core.rs in="impl<T> CscMatrix<T>" name=zeros rules=R1 ret=r
//@contract
    requires size.1 < usize::MAX,
    ensures zero_mat(r, size.0 as int, size.1 as int),
//@end
//@fn file=src/algebra/csc/core.rs in="impl<T> CscMatrix<T>" name=identity rules=R1 ret=r
//@contract
    requires n < usize::MAX,
    ensures diag_mat(r, n as int, f_one()),
//@end
//@fn file=src/algebra/csc/matrix_math.rs in="MatrixMathMut<T> for CscMatrix<T>" name=negate rules=R1
//@contract
    ensures final(self).m == old(self).m, final(self).n == old(self).n, final(self).colptr@ == old(self).colptr@, final(self).rowval@ == old(self).rowval@,
        final(self).nzval@.len() == old(self).nzval@.len(),
        forall|k: int| 0 <= k < old(self).nzval@.len() ==> #[trigger] final(self).nzval@[k] == f_neg(old(self).nzval@[k]),
//@end
    // ASSUMED.  Unit csc_build proves (for the consolidation pass; the sorting prefix is assumed there) dims_ok, strictly sorted columns and
    // dense(result, r, c) == left fold of the triplets (r, c, .).  For ONE triplet per column, J = 0..n, that determines the arrays: column c
    // holds exactly the entry (I[c], V[c]).  The derivation of this special case from the dense form is not mechanised here.
    #[verifier::external_body] pub fn new_from_triplets(m: usize, n: usize, I: Vec<usize>, J: Vec<usize>, V: Vec<F>) -> (r: Self)
        requires
            // the two assert_eq! of the real function
            I@.len() == J@.len(), I@.len() == V@.len(),
            // not checked by the code (observation O15): column indices in range
            forall|k: int| 0 <= k < J@.len() ==> #[trigger] J@[k] < n,
        ensures r.m == m, r.n == n,
            (J@.len() == n && forall|k: int| 0 <= k < n ==> #[trigger] J@[k] == k) ==> r.colptr@.len() == n + 1 && r.rowval@ == I@ && r.nzval@ == V@
                && forall|c: int| 0 <= c <= n ==> #[trigger] r.colptr@[c] == c,
    { unimplemented!() }
}
pub open spec fn zero_mat(Z: CscMatrix<F>, m: int, n: int) -> bool {
    Z.m == m && Z.n == n && Z.colptr@.len() == n + 1 && Z.rowval@.len() == 0 && Z.nzval@.len() == 0 && forall|c: int| 0 <= c <= n ==> #[trigger] Z.colptr@[c] == 0
}
pub open spec fn diag_mat(D: CscMatrix<F>, n: int, v: F) -> bool {
    &&& D.m == n && D.n == n && D.colptr@.len() == n + 1 && D.rowval@.len() == n && D.nzval@.len() == n
    &&& forall|c: int| 0 <= c <= n ==> #[trigger] D.colptr@[c] == c
    &&& forall|k: int| 0 <= k < n ==> #[trigger] D.rowval@[k] == k
    &&& forall|k: int| 0 <= k < n ==> #[trigger] D.nzval@[k] == v
}
// H: one entry per column: column c holds the single entry (hI[c], 1)
pub open spec fn is_selector(H: CscMatrix<F>, hI: Seq<usize>, m: int) -> bool {
    &&& H.m == m && H.n == hI.len() && H.colptr@.len() == H.n + 1 && H.rowval@ == hI && H.nzval@.len() == hI.len()
    &&& forall|c: int| 0 <= c <= H.n ==> #[trigger] H.colptr@[c] == c
    &&& forall|k: int| 0 <= k < hI.len() ==> #[trigger] H.nzval@[k] == f_one()
    &&& forall|k: int| 0 <= k < hI.len() ==> #[trigger] hI[k] < m
}
#[derive(PartialEq, Eq, Clone, Copy, Structural)]
pub enum MatrixShape { N, T }
pub open spec fn pcnt(P: CscMatrix<F>, c: int) -> int { P.colptr@[c + 1] - P.colptr@[c] }
// -- vocabulary of blockdiag / hvcat, verbatim from unit csc_utils --
pub open spec fn bd_rs(ms: Seq<&CscMatrix<F>>, b: int) -> int decreases b { if b <= 0 { 0 } else { bd_rs(ms, b - 1) + ms[b - 1].m } }
pub open spec fn bd_cs(ms: Seq<&CscMatrix<F>>, b: int) -> int decreases b { if b <= 0 { 0 } else { bd_cs(ms, b - 1) + ms[b - 1].n } }
pub open spec fn bd_bs(ms: Seq<&CscMatrix<F>>, b: int) -> int decreases b { if b <= 0 { 0 } else { bd_bs(ms, b - 1) + ms[b - 1].rowval@.len() } }
pub open spec fn bd_blk_ok(M: CscMatrix<F>) -> bool { M.colptr_ok_u() && forall|k: int| 0 <= k < M.rowval@.len() ==> #[trigger] M.rowval@[k] < M.m }
pub open spec fn bd_pre(ms: Seq<&CscMatrix<F>>) -> bool {
    &&& forall|b: int| 0 <= b < ms.len() ==> bd_blk_ok(*#[trigger] ms[b])
    &&& bd_rs(ms, ms.len() as int) <= usize::MAX && bd_cs(ms, ms.len() as int) < usize::MAX && 2 * bd_bs(ms, ms.len() as int) <= usize::MAX
}
pub open spec fn bd_post(ms: Seq<&CscMatrix<F>>, R: CscMatrix<F>) -> bool {
    let nb = ms.len() as int;
    &&& R.m == bd_rs(ms, nb) && R.n == bd_cs(ms, nb) && R.colptr@.len() == R.n + 1 && R.rowval@.len() == bd_bs(ms, nb) && R.nzval@.len() == bd_bs(ms, nb)
    &&& forall|b: int, i: int| 0 <= b < nb && 0 <= i <= ms[b].n ==> #[trigger] R.colptr@[bd_cs(ms, b) + i] == bd_bs(ms, b) + ms[b].colptr@[i]
    &&& forall|b: int, j: int| 0 <= b < nb && 0 <= j < ms[b].rowval@.len() ==> #[trigger] R.rowval@[bd_bs(ms, b) + j] == ms[b].rowval@[j] + bd_rs(ms, b)
    &&& forall|b: int, j: int| 0 <= b < nb && 0 <= j < ms[b].rowval@.len() ==> #[trigger] R.nzval@[bd_bs(ms, b) + j] == ms[b].nzval@[j]
}
pub open spec fn grid_ok(g: Seq<&[&CscMatrix<F>]>) -> bool {
    &&& g.len() >= 1 && g[0]@.len() >= 1
    &&& forall|q: int| 0 <= q < g.len() ==> (#[trigger] g[q])@.len() == g[0]@.len()
    &&& forall|q: int, p: int| 0 <= q < g.len() && 0 <= p < g[0]@.len() ==> (#[trigger] g[q]@[p]).m == g[q]@[0].m
    &&& forall|q: int, p: int| 0 <= q < g.len() && 0 <= p < g[0]@.len() ==> (#[trigger] g[q]@[p]).n == g[0]@[p].n
}
pub open spec fn hv_rs(g: Seq<&[&CscMatrix<F>]>, q: int) -> int decreases q { if q <= 0 { 0 } else { hv_rs(g, q - 1) + g[q - 1]@[0].m } }
pub open spec fn hv_cs(g: Seq<&[&CscMatrix<F>]>, p: int) -> int decreases p { if p <= 0 { 0 } else { hv_cs(g, p - 1) + g[0]@[p - 1].n } }
pub open spec fn hv_colnnz(g: Seq<&[&CscMatrix<F>]>, p: int, q: int) -> int decreases q { if q <= 0 { 0 } else { hv_colnnz(g, p, q - 1) + g[q - 1]@[p].rowval@.len() } }
pub open spec fn hv_base(g: Seq<&[&CscMatrix<F>]>, p: int) -> int decreases p { if p <= 0 { 0 } else { hv_base(g, p - 1) + hv_colnnz(g, p - 1, g.len() as int) } }
pub open spec fn hv_cnt(g: Seq<&[&CscMatrix<F>]>, p: int, l: int, q: int) -> int decreases q { if q <= 0 { 0 } else { hv_cnt(g, p, l, q - 1) + pcnt(*g[q - 1]@[p], l) } }
pub open spec fn hv_cps(g: Seq<&[&CscMatrix<F>]>, p: int, l: int, q: int) -> int decreases q { if q <= 0 { 0 } else { hv_cps(g, p, l, q - 1) + g[q - 1]@[p].colptr@[l] } }
pub open spec fn hv_st(g: Seq<&[&CscMatrix<F>]>, p: int, l: int) -> int { hv_base(g, p) + hv_cps(g, p, l, g.len() as int) }
pub open spec fn hv_pre(g: Seq<&[&CscMatrix<F>]>) -> bool {
    &&& grid_ok(g)
    &&& forall|q: int, p: int| 0 <= q < g.len() && 0 <= p < g[0]@.len() ==> bd_blk_ok(*#[trigger] g[q]@[p])
    &&& hv_rs(g, g.len() as int) <= usize::MAX && hv_cs(g, g[0]@.len() as int) < usize::MAX && 2 * hv_base(g, g[0]@.len() as int) <= usize::MAX
}
pub open spec fn hv_post(g: Seq<&[&CscMatrix<F>]>, R: CscMatrix<F>) -> bool {
    let nr = g.len() as int; let nc = g[0]@.len() as int;
    &&& R.m == hv_rs(g, nr) && R.n == hv_cs(g, nc) && R.colptr@.len() == R.n + 1 && R.rowval@.len() == hv_base(g, nc) && R.nzval@.len() == hv_base(g, nc)
    &&& forall|p: int, l: int| 0 <= p < nc && 0 <= l <= g[0]@[p].n ==> #[trigger] R.colptr@[hv_cs(g, p) + l] == hv_st(g, p, l)
    &&& forall|q: int, p: int, l: int, j: int| 0 <= q < nr && 0 <= p < nc && #[trigger] g[q]@[p].in_col_u(j, l) ==> {
            let d = hv_st(g, p, l) + hv_cnt(g, p, l, q) + (j - g[q]@[p].colptr@[l]);
            0 <= d < R.rowval@.len() && R.rowval@[d] == g[q]@[p].rowval@[j] + hv_rs(g, q) && R.nzval@[d] == g[q]@[p].nzval@[j] }
}
impl CscMatrix<F> {
    // ASSUMED here, PROVED in unit csc_utils (contract text of blockdiag / hvcat there)
    #[verifier::external_body] pub fn blockdiag(mats: &[&Self]) -> (r: Result<Self, MatrixConcatenationError>)
        requires bd_pre(mats@),
        ensures mats@.len() == 0 <==> r is Err, r matches Ok(R) ==> bd_post(mats@, R),
    { unimplemented!() }
    #[verifier::external_body] pub fn hvcat(mats: &[&[&Self]]) -> (r: Result<Self, MatrixConcatenationError>)
        requires grid_ok(mats@) ==> hv_pre(mats@),
        ensures r is Ok <==> grid_ok(mats@), r matches Ok(R) ==> hv_post(mats@, R),
    { unimplemented!() }
}
// ---- what the two concatenations mean for the augmented problem ----
// P_new = blockdiag(P, 0_k): the arrays of P, followed by k empty columns (and k further rows)
pub open spec fn padded_P(P: CscMatrix<F>, k: int, R: CscMatrix<F>) -> bool {
    &&& R.m == P.m + k && R.n == P.n + k && R.colptr@.len() == R.n + 1 && R.rowval@ == P.rowval@ && R.nzval@ == P.nzval@
    &&& forall|c: int| 0 <= c <= P.n ==> #[trigger] R.colptr@[c] == P.colptr@[c]
    &&& forall|c: int| P.n <= c <= P.n + k ==> #[trigger] R.colptr@[c] == P.rowval@.len()
}
// A_new = [A H; 0 -I]: columns of A unchanged; column A.n + l = column l of H (rows unchanged) followed by the entry (A.m + l, -1)
pub open spec fn aug_A(A: CscMatrix<F>, H: CscMatrix<F>, R: CscMatrix<F>) -> bool {
    let na = A.rowval@.len() as int; let k = H.n as int;
    &&& R.m == A.m + k && R.n == A.n + k && R.colptr@.len() == R.n + 1 && R.rowval@.len() == na + H.rowval@.len() + k && R.nzval@.len() == na + H.rowval@.len() + k
    &&& forall|c: int| 0 <= c <= A.n ==> #[trigger] R.colptr@[c] == A.colptr@[c]
    &&& forall|l: int| 0 <= l <= k ==> #[trigger] R.colptr@[A.n + l] == na + H.colptr@[l] + l
    &&& forall|j: int| 0 <= j < na ==> #[trigger] R.rowval@[j] == A.rowval@[j]
    &&& forall|j: int| 0 <= j < na ==> #[trigger] R.nzval@[j] == A.nzval@[j]
    &&& forall|l: int, j: int| #[trigger] H.in_col_u(j, l) ==> R.rowval@[na + j + l] == H.rowval@[j] && R.nzval@[na + j + l] == H.nzval@[j]
    &&& forall|l: int| 0 <= l < k ==> R.rowval@[na + #[trigger] H.colptr@[l + 1] + l] == A.m + l && R.nzval@[na + H.colptr@[l + 1] + l] == f_neg(f_one())
}
pub open spec fn is_pair(ms: Seq<&CscMatrix<F>>, P: &CscMatrix<F>, k: int) -> bool { ms.len() == 2 && ms[0] == P && zero_mat(*ms[1], k, k) }
pub proof fn lemma_bd_pair(ms: Seq<&CscMatrix<F>>, P: &CscMatrix<F>, k: int)
    requires is_pair(ms, P, k), bd_blk_ok(*P), 0 <= k, P.m + k <= usize::MAX, P.n + k < usize::MAX, 2 * P.rowval@.len() <= usize::MAX,
    ensures bd_pre(ms), forall|R: CscMatrix<F>| #[trigger] bd_post(ms, R) ==> padded_P(*P, k, R),
{
    reveal_with_fuel(bd_rs, 3); reveal_with_fuel(bd_cs, 3); reveal_with_fuel(bd_bs, 3);
    assert forall|b: int| 0 <= b < ms.len() implies bd_blk_ok(*#[trigger] ms[b]) by { if b == 1 { assert(ms[1].colptr@[0] == 0 && ms[1].colptr@[k] == 0); } }
    assert forall|R: CscMatrix<F>| #[trigger] bd_post(ms, R) implies padded_P(*P, k, R) by {
        assert forall|c: int| 0 <= c <= P.n implies #[trigger] R.colptr@[c] == P.colptr@[c] by { assert(R.colptr@[bd_cs(ms, 0) + c] == bd_bs(ms, 0) + ms[0].colptr@[c]); }
        assert forall|c: int| P.n <= c <= P.n + k implies #[trigger] R.colptr@[c] == P.rowval@.len() by { assert(R.colptr@[bd_cs(ms, 1) + (c - P.n)] == bd_bs(ms, 1) + ms[1].colptr@[c - P.n]); }
        assert(R.rowval@ =~= P.rowval@) by { assert forall|j: int| 0 <= j < P.rowval@.len() implies R.rowval@[j] == P.rowval@[j] by { assert(R.rowval@[bd_bs(ms, 0) + j] == ms[0].rowval@[j] + bd_rs(ms, 0)); } }
        assert(R.nzval@ =~= P.nzval@) by { assert forall|j: int| 0 <= j < P.rowval@.len() implies R.nzval@[j] == P.nzval@[j] by { assert(R.nzval@[bd_bs(ms, 0) + j] == ms[0].nzval@[j]); } }
    }
}
pub open spec fn is_grid2(g: Seq<&[&CscMatrix<F>]>, A: &CscMatrix<F>, H: &CscMatrix<F>, Z: &CscMatrix<F>, N: &CscMatrix<F>) -> bool {
    g.len() == 2 && g[0]@.len() == 2 && g[1]@.len() == 2 && g[0]@[0] == A && g[0]@[1] == H && g[1]@[0] == Z && g[1]@[1] == N
}
pub proof fn lemma_hv_grid2(g: Seq<&[&CscMatrix<F>]>, A: &CscMatrix<F>, H: &CscMatrix<F>, Z: &CscMatrix<F>, N: &CscMatrix<F>)
    requires
        is_grid2(g, A, H, Z, N), bd_blk_ok(*A), bd_blk_ok(*H), A.m == H.m, zero_mat(*Z, H.n as int, A.n as int), diag_mat(*N, H.n as int, f_neg(f_one())),
        A.m + H.n <= usize::MAX, A.n + H.n < usize::MAX, 2 * (A.rowval@.len() + H.rowval@.len() + H.n) <= usize::MAX,
    ensures grid_ok(g), hv_pre(g), forall|R: CscMatrix<F>| #[trigger] hv_post(g, R) ==> aug_A(*A, *H, R),
{
    reveal_with_fuel(hv_rs, 3); reveal_with_fuel(hv_cs, 3); reveal_with_fuel(hv_base, 3); reveal_with_fuel(hv_colnnz, 3); reveal_with_fuel(hv_cps, 3); reveal_with_fuel(hv_cnt, 3);
    let na = A.rowval@.len() as int; let k = H.n as int;
    assert(grid_ok(g)) by {
        assert forall|q: int, p: int| 0 <= q < g.len() && 0 <= p < g[0]@.len() implies (#[trigger] g[q]@[p]).m == g[q]@[0].m && g[q]@[p].n == g[0]@[p].n by { }
    }
    assert forall|q: int, p: int| 0 <= q < g.len() && 0 <= p < g[0]@.len() implies bd_blk_ok(*#[trigger] g[q]@[p]) by {
        if q == 1 && p == 0 { assert(Z.colptr@[0] == 0 && Z.colptr@[A.n as int] == 0); }
        if q == 1 && p == 1 { assert(N.colptr@[0] == 0 && N.colptr@[k] == k); }
    }
    assert forall|R: CscMatrix<F>| #[trigger] hv_post(g, R) implies aug_A(*A, *H, R) by {
        assert forall|c: int| 0 <= c <= A.n implies #[trigger] R.colptr@[c] == A.colptr@[c] by { assert(R.colptr@[hv_cs(g, 0) + c] == hv_st(g, 0, c)); assert(Z.colptr@[c] == 0); }
        assert forall|l: int| 0 <= l <= k implies #[trigger] R.colptr@[A.n + l] == na + H.colptr@[l] + l by { assert(R.colptr@[hv_cs(g, 1) + l] == hv_st(g, 1, l)); assert(N.colptr@[l] == l); }
        assert forall|j: int| 0 <= j < na implies #[trigger] R.rowval@[j] == A.rowval@[j] by {
            let c = lemma_col_of_u(*A, j);
            assert(g[0]@[0].in_col_u(j, c)); assert(Z.colptr@[c] == 0);
        }
        assert forall|j: int| 0 <= j < na implies #[trigger] R.nzval@[j] == A.nzval@[j] by {
            let c = lemma_col_of_u(*A, j);
            assert(g[0]@[0].in_col_u(j, c)); assert(Z.colptr@[c] == 0);
        }
        assert(R.m == A.m + k && R.n == A.n + k);
        assert(R.rowval@.len() == na + H.rowval@.len() + k);
        assert forall|l: int, j: int| #[trigger] H.in_col_u(j, l) implies R.rowval@[na + j + l] == H.rowval@[j] && R.nzval@[na + j + l] == H.nzval@[j] by {
            assert(g[0]@[1].in_col_u(j, l)); assert(N.colptr@[l] == l);
        }
        assert forall|l: int| 0 <= l < k implies R.rowval@[na + #[trigger] H.colptr@[l + 1] + l] == A.m + l && R.nzval@[na + H.colptr@[l + 1] + l] == f_neg(f_one()) by {
            assert(N.colptr@[l] == l && N.colptr@[l + 1] == l + 1);
            assert(g[1]@[1].in_col_u(l, l));
            assert(N.rowval@[l] == l && N.nzval@[l] == f_neg(f_one()));
        }
    }
}
pub proof fn lemma_col_of_u(A: CscMatrix<F>, k: int) -> (c: int)
    requires A.colptr_ok_u(), 0 <= k < A.rowval@.len(),
    ensures A.in_col_u(k, c),
{ lemma_col_search_u(A, k, A.n as int) }
pub proof fn lemma_col_search_u(A: CscMatrix<F>, k: int, j: int) -> (c: int)
    requires A.colptr_ok_u(), 0 <= j <= A.n, 0 <= k < A.colptr@[j],
    ensures A.in_col_u(k, c),
    decreases j,
{
    if j == 0 { 0 } else if A.colptr@[j - 1] <= k { j - 1 } else { lemma_col_search_u(A, k, j - 1) }
}

// ---- the decomposition as a function of (init_cones, spatterns): which cones are decomposed, rows of H, new cone list, sizes ----
// number of patterns consumed before cone i: the explicit state of the peekable pattern iterator
pub open spec fn pk(sp: Seq<SparsityPattern>, i: int) -> int decreases i {
    if i <= 0 { 0 } else { let k = pk(sp, i - 1); if k < sp.len() && sp[k].orig_index == i - 1 { k + 1 } else { k } } }
pub open spec fn is_dec(sp: Seq<SparsityPattern>, i: int) -> bool { pk(sp, i) < sp.len() && sp[pk(sp, i)].orig_index == i }
pub open spec fn row_off(cones: Seq<Cone>, i: int) -> int decreases i { if i <= 0 { 0 } else { row_off(cones, i - 1) + nvars_spec(cones[i - 1]) } }
pub open spec fn hI_spec(ci: ChordalInfo<F>, i: int) -> Seq<usize> decreases i {
    if i <= 0 { Seq::empty() } else {
        let sp = ci.spatterns@; let row = row_off(ci.init_cones@, i - 1);
        if is_dec(sp, i - 1) { hI_spec(ci, i - 1) + pat_blk(sp[pk(sp, i - 1)], row, sp[pk(sp, i - 1)].sntree.n_cliques as int) }
        else { hI_spec(ci, i - 1) + id_blk(row, nvars_spec(ci.init_cones@[i - 1])) } } }
pub open spec fn cones_spec(ci: ChordalInfo<F>, i: int) -> Seq<Cone> decreases i {
    if i <= 0 { seq![SupportedConeT::ZeroConeT(ci.init_dims.1)] } else {
        let sp = ci.spatterns@;
        if is_dec(sp, i - 1) { cones_spec(ci, i - 1) + psd_cones(sp[pk(sp, i - 1)].sntree.nblk->0@, sp[pk(sp, i - 1)].sntree.n_cliques as int) }
        else { cones_spec(ci, i - 1).push(ci.init_cones@[i - 1]) } } }
pub open spec fn dim_spec(ci: ChordalInfo<F>, i: int) -> int decreases i {
    if i <= 0 { 0 } else { let sp = ci.spatterns@;
        dim_spec(ci, i - 1) + (if is_dec(sp, i - 1) { sum_tri_nblk(sp[pk(sp, i - 1)].sntree.nblk->0@, sp[pk(sp, i - 1)].sntree.n_cliques as int) } else { nvars_spec(ci.init_cones@[i - 1]) }) } }
pub open spec fn ovl_spec(ci: ChordalInfo<F>, i: int) -> int decreases i {
    if i <= 0 { 0 } else { let sp = ci.spatterns@;
        ovl_spec(ci, i - 1) + (if is_dec(sp, i - 1) { sum_tri_sep(sp[pk(sp, i - 1)].sntree, sp[pk(sp, i - 1)].sntree.n_cliques as int) } else { 0int }) } }
pub open spec fn ncl_sum(sp: Seq<SparsityPattern>, k: int) -> int decreases k { if k <= 0 { 0 } else { ncl_sum(sp, k - 1) + sp[k - 1].sntree.n_cliques } }
// what ChordalInfo::new leaves behind when a decomposition takes place (see the header for where each clause comes from)
pub open spec fn pat_ok(ci: ChordalInfo<F>, k: int) -> bool {
    let p = ci.spatterns@[k];
    &&& p.orig_index < ci.init_cones@.len() && ci.init_cones@[p.orig_index as int] == SupportedConeT::<F>::PSDTriangleConeT(p.ordering@.len() as usize)
    &&& pat_wf(p)
}
pub open spec fn ci_wf(ci: ChordalInfo<F>) -> bool {
    let n = ci.init_cones@.len() as int;
    &&& forall|k: int| 0 <= k < ci.spatterns@.len() ==> #[trigger] pat_ok(ci, k)
    &&& forall|i: int| 0 <= i < n ==> (#[trigger] ci.init_cones@[i] matches SupportedConeT::PSDTriangleConeT(d) ==> d < 0x8000_0000)
    // sizes of one problem: the row count, the decomposed row count and the number of overlaps fit a usize
    &&& row_off(ci.init_cones@, n) <= usize::MAX && dim_spec(ci, n) <= usize::MAX && ovl_spec(ci, n) <= usize::MAX
    &&& n + ncl_sum(ci.spatterns@, ci.spatterns@.len() as int) + 1 <= usize::MAX
}
pub proof fn lemma_nvars_nonneg(c: Cone) ensures nvars_spec(c) >= 0
{ match c { SupportedConeT::PSDTriangleConeT(d) => { lemma_tri_step(d as int); }, _ => {} } }
pub proof fn lemma_pk_range(sp: Seq<SparsityPattern>, i: int) requires i >= 0 ensures 0 <= pk(sp, i) <= sp.len(), pk(sp, i) <= i decreases i
{ if i > 0 { lemma_pk_range(sp, i - 1); } }
pub proof fn lemma_offs_mono(ci: ChordalInfo<F>, a: int, b: int)
    requires 0 <= a <= b,
    ensures 0 <= row_off(ci.init_cones@, a) <= row_off(ci.init_cones@, b), 0 <= dim_spec(ci, a) <= dim_spec(ci, b), 0 <= ovl_spec(ci, a) <= ovl_spec(ci, b),
    decreases b,
{
    let sp = ci.spatterns@;
    if a < b {
        lemma_offs_mono(ci, a, b - 1); lemma_nvars_nonneg(ci.init_cones@[b - 1]);
        let t = sp[pk(sp, b - 1)].sntree; lemma_sums_mono(t, t.nblk->0@, 0, t.n_cliques as int);
    } else if a > 0 {
        lemma_offs_mono(ci, a - 1, a - 1); lemma_nvars_nonneg(ci.init_cones@[a - 1]);
        let t = sp[pk(sp, a - 1)].sntree; lemma_sums_mono(t, t.nblk->0@, 0, t.n_cliques as int);
    }
}
// block sizes of a well-formed pattern stay below the bounds the size functions need
pub proof fn lemma_clique_sizes(p: SparsityPattern, j: int)
    requires pat_wf(p), 0 <= j < p.sntree.n_cliques,
    ensures p.sntree.nblk->0@[j] < 0x1_0000_0000, sep(p.sntree, j).len() < 0x8000_0000, snd(p.sntree, j).len() < 0x8000_0000,
        p.sntree.snode_post@[j] < p.sntree.snode@.len() && p.sntree.snode_post@[j] < p.sntree.separators@.len(),
{
    let t = p.sntree; let dim = p.ordering@.len() as int;
    assert(clique_wf(p, j));
    assert forall|q: int| 0 <= q < snd(t, j).len() implies #[trigger] snd(t, j)[q] < dim by { assert(clique_of(t, j)[q] == snd(t, j)[q]); }
    assert forall|q: int| 0 <= q < sep(t, j).len() implies #[trigger] sep(t, j)[q] < dim by { assert(clique_of(t, j)[snd(t, j).len() + q] == sep(t, j)[q]); }
    lemma_nodup_bounded(snd(t, j), dim); lemma_nodup_bounded(sep(t, j), dim);
}
pub proof fn lemma_pat_sizes(p: SparsityPattern)
    requires pat_wf(p),
    ensures
        forall|j: int| 0 <= j < p.sntree.n_cliques ==> #[trigger] p.sntree.nblk->0@[j] < 0x1_0000_0000,
        forall|j: int| 0 <= j < p.sntree.n_cliques ==> #[trigger] sep(p.sntree, j).len() < 0x1_0000_0000,
        forall|j: int| 0 <= j < p.sntree.n_cliques ==> #[trigger] p.sntree.snode_post@[j] < p.sntree.snode@.len() && p.sntree.snode_post@[j] < p.sntree.separators@.len(),
{
    assert forall|j: int| 0 <= j < p.sntree.n_cliques implies #[trigger] p.sntree.nblk->0@[j] < 0x1_0000_0000 by { lemma_clique_sizes(p, j); }
    assert forall|j: int| 0 <= j < p.sntree.n_cliques implies #[trigger] sep(p.sntree, j).len() < 0x1_0000_0000 by { lemma_clique_sizes(p, j); }
    assert forall|j: int| 0 <= j < p.sntree.n_cliques implies #[trigger] p.sntree.snode_post@[j] < p.sntree.snode@.len() && p.sntree.snode_post@[j] < p.sntree.separators@.len() by { lemma_clique_sizes(p, j); }
}
pub proof fn lemma_ncl_mono(sp: Seq<SparsityPattern>, a: int, b: int)
    requires 0 <= a <= b <= sp.len(), forall|k: int| 0 <= k < sp.len() ==> #[trigger] sp[k].sntree.n_cliques >= 1,
    ensures a <= ncl_sum(sp, a) <= ncl_sum(sp, b), ncl_sum(sp, b) - ncl_sum(sp, a) >= b - a,
    decreases b,
{ if a < b { lemma_ncl_mono(sp, a, b - 1); } else if a > 0 { lemma_ncl_mono(sp, a - 1, a - 1); } }

impl ChordalInfo<F> {
//@fn file=src/solver/chordal/chordal_info.rs in="impl<T> ChordalInfo<T>" name=get_decomposed_dim_and_overlaps rules=R1,R3,peekslice ret=r
//@contract
    requires ci_wf(*self),
    ensures
        // C18 (sizes of the decomposed problem): per original cone either its own dimension or the total packed dimension of its clique
        // blocks; the overlaps are the packed dimensions of the separators of the decomposed cones
        r.0 == dim_spec(*self, self.init_cones@.len() as int), r.1 == ovl_spec(*self, self.init_cones@.len() as int),
//@pre
    let ghost sp = self.spatterns@;
    let ghost nc = self.init_cones@.len() as int;
    proof { assert(self.init_cones@.len() == self.init_cones.len()); }
//@iter 1
it
//@loop 1
        invariant
            nc <= usize::MAX, cones == &self.init_cones, sp == self.spatterns@, nc == self.init_cones@.len(), ci_wf(*self),
            it.seq().len() == nc, forall|k: int| 0 <= k < nc ==> *(#[trigger] it.seq()[k]) == self.init_cones@[k],
            coneidx_ctr == it.index@, patterns_iter.all() == sp, patterns_iter.pos() == pk(sp, it.index@ as int),
            sum_cols == dim_spec(*self, it.index@ as int), sum_overlaps == ovl_spec(*self, it.index@ as int),
//@body_start 1
        let ghost gi = it.index@ as int;
        proof {
            lemma_pk_range(sp, gi);
            lemma_offs_mono(*self, gi + 1, nc); lemma_offs_mono(*self, gi, gi);
            assert(*cone == self.init_cones@[gi]);
            lemma_nvars_nonneg(self.init_cones@[gi]);
            lemma_offs_mono(*self, gi, gi + 1);
            if is_dec(sp, gi) {
                let p = sp[pk(sp, gi)];
                assert(pat_ok(*self, pk(sp, gi)));
                lemma_pat_sizes(p);
                lemma_sums_mono(p.sntree, p.sntree.nblk->0@, 0, p.sntree.n_cliques as int);
            }
        }
//@end
//@fn file=src/solver/chordal/decomp/augment_standard.rs in="impl<T> ChordalInfo<T>" name=find_H_col_dimension rules=R1 ret=r
//@contract
    requires ci_wf(*self),
    ensures r == dim_spec(*self, self.init_cones@.len() as int),
//@end
//@fn file=src/solver/chordal/chordal_info.rs in="impl<T> ChordalInfo<T>" name=init_cone_count rules=R1 ret=r
//@contract
    ensures r == self.init_cones@.len(),
//@end
//@fn file=src/solver/chordal/chordal_info.rs in="impl<T> ChordalInfo<T>" name=decomposable_cone_count rules=R1 ret=r
//@contract
    ensures r == self.spatterns@.len(),
//@end
//@fn file=src/solver/chordal/chordal_info.rs in="impl<T> ChordalInfo<T>" name=final_psd_cones_added rules=R1,R24 ret=r
//@contract
    requires
        forall|k: int| 0 <= k < self.spatterns@.len() ==> #[trigger] self.spatterns@[k].sntree.n_cliques >= 1,
        ncl_sum(self.spatterns@, self.spatterns@.len() as int) <= usize::MAX,
    ensures
        // every decomposed cone is replaced by its cliques: #cliques - 1 further cones each
        r == ncl_sum(self.spatterns@, self.spatterns@.len() as int) - self.spatterns@.len(),
//@iter 1
it
//@loop 1
            invariant
                it.seq().len() == self.spatterns@.len(), forall|k: int| 0 <= k < self.spatterns@.len() ==> *(#[trigger] it.seq()[k]) == self.spatterns@[k],
                forall|k: int| 0 <= k < self.spatterns@.len() ==> #[trigger] self.spatterns@[k].sntree.n_cliques >= 1,
                ncl_sum(self.spatterns@, self.spatterns@.len() as int) <= usize::MAX,
                acc == ncl_sum(self.spatterns@, it.index@ as int),
//@body_start 1
                proof { lemma_ncl_mono(self.spatterns@, it.index@ + 1, self.spatterns@.len() as int); }
//@before "let ndecomposable ="
        proof { lemma_ncl_mono(self.spatterns@, 0, self.spatterns@.len() as int); }
//@end
//@fn file=src/solver/chordal/chordal_info.rs in="impl<T> ChordalInfo<T>" name=final_cone_count rules=R1 ret=r
//@contract
    requires
        forall|k: int| 0 <= k < self.spatterns@.len() ==> #[trigger] self.spatterns@[k].sntree.n_cliques >= 1,
        self.init_cones@.len() + ncl_sum(self.spatterns@, self.spatterns@.len() as int) <= usize::MAX,
    ensures r == self.init_cones@.len() + ncl_sum(self.spatterns@, self.spatterns@.len() as int) - self.spatterns@.len(),
//@pre
    proof { lemma_ncl_mono(self.spatterns@, 0, self.spatterns@.len() as int); }
//@end

//@fn file=src/solver/chordal/decomp/augment_standard.rs in="impl<T> ChordalInfo<T>" name=find_standard_H_and_cones rules=R1,R3,peekslice ret=r
//@contract
    requires ci_wf(*old(self)),
    ensures
        *final(self) == *old(self),
        // C18 (standard form): the new cone list is ZeroConeT(m) followed, per original cone, by the cone itself or by its clique cones
        r.1@ == cones_spec(*old(self), old(self).init_cones@.len() as int),
        // H has one column per row of the decomposed cones and exactly one entry, a 1, per column: column c names the original row
        // hI_spec[c] (identity rows for the cones that are kept, the packed clique blocks for the decomposed ones); all rows are in range
        is_selector(r.0, hI_spec(*old(self), old(self).init_cones@.len() as int), row_off(old(self).init_cones@, old(self).init_cones@.len() as int)),
        r.0.n == dim_spec(*old(self), old(self).init_cones@.len() as int),
//@pre
    let ghost ci = *self;
    let ghost sp = self.spatterns@;
    let ghost nc = self.init_cones@.len() as int;
    proof {
        assert forall|k: int| 0 <= k < sp.len() implies #[trigger] sp[k].sntree.n_cliques >= 1 by { assert(pat_ok(ci, k)); }
        assert(self.init_cones@.len() == self.init_cones.len());
    }
//@iter 1
it
//@loop 1
        invariant
            nc <= usize::MAX, *self == ci, cones == &self.init_cones, sp == ci.spatterns@, nc == ci.init_cones@.len(), ci_wf(ci),
            it.seq().len() == nc, forall|k: int| 0 <= k < nc ==> *(#[trigger] it.seq()[k]) == ci.init_cones@[k],
            coneidx_ctr == it.index@, patterns_iter.all() == sp, patterns_iter.pos() == pk(sp, it.index@ as int),
            row == row_off(ci.init_cones@, it.index@ as int),
            H_I@ == hI_spec(ci, it.index@ as int), cones_new@ == cones_spec(ci, it.index@ as int),
            H_I@.len() == dim_spec(ci, it.index@ as int),
            forall|k: int| 0 <= k < H_I@.len() ==> #[trigger] H_I@[k] < row,
//@body_start 1
        let ghost gi = it.index@ as int;
        let ghost h1 = H_I@;
        proof {
            lemma_pk_range(sp, gi);
            lemma_offs_mono(ci, gi + 1, nc); lemma_offs_mono(ci, gi, gi);
            assert(*cone == ci.init_cones@[gi]);
            lemma_nvars_nonneg(ci.init_cones@[gi]);
            if is_dec(sp, gi) { assert(pat_ok(ci, pk(sp, gi))); lemma_tri_mono(0, sp[pk(sp, gi)].ordering@.len() as int); }
        }
//@body_end 1
        proof {
            assert forall|k: int| 0 <= k < H_I@.len() implies #[trigger] H_I@[k] < row by {
                if k < h1.len() { assert(H_I@[k] == h1[k]); } else if !is_dec(sp, gi) { assert(H_I@[k] == id_blk(row_off(ci.init_cones@, gi), nvars_spec(ci.init_cones@[gi]))[k - h1.len()]); }
            }
        }
//@end
}

pub open spec fn zeros_seq(k: int) -> Seq<F> { Seq::new(k as nat, |i: int| f_zero()) }
// number of columns of H = rows of the decomposed cones
pub open spec fn aug_k(ci: ChordalInfo<F>) -> int { dim_spec(ci, ci.init_cones@.len() as int) }
pub open spec fn aug_m(ci: ChordalInfo<F>) -> int { row_off(ci.init_cones@, ci.init_cones@.len() as int) }
pub type AugmentResult = (CscMatrix<F>, Vec<F>, CscMatrix<F>, Vec<F>, Vec<SupportedConeT<F>>);
impl ChordalInfo<F> {
//@fn file=src/solver/chordal/decomp/augment_standard.rs in="impl<T> ChordalInfo<T>" name=decomp_augment_standard rules=R1,R15:q_new|b_new ret=r
//@contract
    requires
        ci_wf(*old(self)),
        // P and A as DefaultProblemData::new holds them: column pointers from 0, monotone, row indices inside the matrix (NOT validated for a
        // user-supplied A, see units csc_core / chordal_decomp)
        bd_blk_ok(*P), bd_blk_ok(*A),
        // O7 / D2: the decomposition must have been computed for THIS A - its rows are the rows of the cones that were analysed.  Violated at the
        // call site in DefaultProblemData::new when the presolver has removed rows (see the header)
        A.m == aug_m(*old(self)),
        // sizes of one problem
        P.m + aug_k(*old(self)) <= usize::MAX, P.n + aug_k(*old(self)) < usize::MAX, 2 * P.rowval@.len() <= usize::MAX,
        A.m + aug_k(*old(self)) <= usize::MAX, A.n + aug_k(*old(self)) < usize::MAX, 2 * (A.rowval@.len() + 2 * aug_k(*old(self))) <= usize::MAX,
        q@.len() + aug_k(*old(self)) <= usize::MAX, b@.len() + aug_k(*old(self)) <= usize::MAX,
    ensures
        // C18 (standard form): with k = number of rows of the decomposed cones,
        //   P_new = blockdiag(P, 0_k), q_new = (q, 0_k), A_new = [A H; 0 -I_k], b_new = (b, 0_k), cones_new = ZeroConeT(m) ++ per-cone lists,
        //   H stored in self.H (one 1 per column, column c in row hI_spec[c]); nothing else of self changes
        padded_P(*P, aug_k(*old(self)), r.0),
        r.1@ == q@ + zeros_seq(aug_k(*old(self))),
        r.3@ == b@ + zeros_seq(aug_k(*old(self))),
        r.4@ == cones_spec(*old(self), old(self).init_cones@.len() as int),
        final(self).H matches Some(Hm) && is_selector(Hm, hI_spec(*old(self), old(self).init_cones@.len() as int), aug_m(*old(self))) && Hm.n == aug_k(*old(self)) && aug_A(*A, Hm, r.2),
        final(self).init_dims == old(self).init_dims, final(self).init_cones == old(self).init_cones, final(self).spatterns == old(self).spatterns, final(self).cone_maps == old(self).cone_maps,
//@pre
    let ghost ci = *self;
    let ghost k = aug_k(*self);
    proof { lemma_offs_mono(ci, 0, ci.init_cones@.len() as int); assert(q@.len() == q.len() && b@.len() == b.len()); }
//@before "let P_new ="
        proof {
            assert(bd_blk_ok(H)) by { assert(H.colptr@[0] == 0 && H.colptr@[H.n as int] == H.n); }
            assert forall|ms: Seq<&CscMatrix<F>>| is_pair(ms, P, k) implies #[trigger] bd_pre(ms) by { lemma_bd_pair(ms, P, k); }
            assert forall|ms: Seq<&CscMatrix<F>>, R: CscMatrix<F>| is_pair(ms, P, k) && #[trigger] bd_post(ms, R) implies padded_P(*P, k, R) by { lemma_bd_pair(ms, P, k); }
        }
//@before "let mut negI ="
        proof { assert(q_new@ =~= q@ + zeros_seq(k)); }
//@before "let A_new ="
        proof {
            assert(diag_mat(negI, k, f_neg(f_one())));
            assert forall|g: Seq<&[&CscMatrix<F>]>| is_grid2(g, A, &H, &Z, &negI) implies #[trigger] grid_ok(g) by { lemma_hv_grid2(g, A, &H, &Z, &negI); }
            assert forall|g: Seq<&[&CscMatrix<F>]>| is_grid2(g, A, &H, &Z, &negI) implies #[trigger] hv_pre(g) by { lemma_hv_grid2(g, A, &H, &Z, &negI); }
            assert forall|g: Seq<&[&CscMatrix<F>]>, R: CscMatrix<F>| is_grid2(g, A, &H, &Z, &negI) && #[trigger] hv_post(g, R) implies aug_A(*A, H, R) by { lemma_hv_grid2(g, A, &H, &Z, &negI); }
        }
//@before "self.H = Some(H);"
        proof { assert(b_new@ =~= b@ + zeros_seq(k)); assert(aug_A(*A, H, A_new)); }
//@end
}

// ---- reversal of the standard form (F-real: the sums are read as real sums) ----
// dense meaning of A*x read off the CSC arrays (definitions of unit csc_math, verbatim)
pub open spec fn colsum_n(A: CscMatrix<F>, x: Seq<F>, r: int, j: int, hi: int) -> real
    decreases hi - A.colptr@[j],
{
    if hi <= A.colptr@[j] { 0real } else {
        colsum_n(A, x, r, j, hi - 1) + (if A.rowval@[hi - 1] == r { A.nzval@[hi - 1].v() * x[j].v() } else { 0real })
    }
}
pub open spec fn total_n(A: CscMatrix<F>, x: Seq<F>, r: int, j: int) -> real
    decreases j,
{
    if j <= 0 { 0real } else { total_n(A, x, r, j - 1) + colsum_n(A, x, r, j - 1, A.colptr@[j] as int) }
}
pub open spec fn rowsum(rv: Seq<usize>, nz: Seq<F>, r: int, k: int) -> F decreases k {
    if k <= 0 { f_zero() } else if rv[k - 1] == r { f_add(rowsum(rv, nz, r, k - 1), nz[k - 1]) } else { rowsum(rv, nz, r, k - 1) } }
pub open spec fn rows_below(a: CscMatrix<F>, bound: int) -> bool { forall|k: int| 0 <= k < a.rowval@.len() ==> a.rowval@[k] < bound }
impl CscMatrix<F> {
    pub open spec fn colptr_ok(&self) -> bool {
        &&& self.colptr@.len() == self.n + 1
        &&& self.rowval@.len() == self.nzval@.len()
        &&& self.colptr@[self.n as int] == self.nzval@.len()
        &&& forall|a: int, b: int| 0 <= a <= b <= self.n ==> self.colptr@[a] <= self.colptr@[b]
    }
    // ASSUMED here, PROVED in unit csc_math (contract text of gemv / row_sums there)
    #[verifier::external_body] pub fn gemv(&self, y: &mut [F], x: &[F], a: F, b: F)
        requires self.colptr_ok(), x@.len() == self.n, rows_below(*self, old(y)@.len() as int),
        ensures
            final(y)@.len() == old(y)@.len(),
            forall|r: int| 0 <= r < old(y)@.len() ==> (#[trigger] final(y)@[r]).v() == b.v() * old(y)@[r].v() + a.v() * total_n(*self, x@, r, self.n as int),
    { unimplemented!() }
    #[verifier::external_body] pub fn row_sums(&self, sums: &mut [F])
        requires self.rowval@.len() == self.nzval@.len(), old(sums)@.len() == self.m, rows_below(*self, self.m as int),
        ensures
            final(sums)@.len() == old(sums)@.len(),
            forall|r: int| 0 <= r < self.m ==> #[trigger] final(sums)@[r] == rowsum(self.rowval@, self.nzval@, r, self.rowval@.len() as int),
    { unimplemented!() }
}
// the selector H applied to x: row r receives the sum of the x[c] whose column names row r;  how many columns name row r
pub open spec fn sel_sum(hI: Seq<usize>, x: Seq<F>, r: int, j: int) -> real decreases j {
    if j <= 0 { 0real } else { sel_sum(hI, x, r, j - 1) + (if hI[j - 1] == r { x[j - 1].v() } else { 0real }) } }
pub open spec fn sel_cnt(hI: Seq<usize>, r: int, j: int) -> int decreases j { if j <= 0 { 0 } else { sel_cnt(hI, r, j - 1) + (if hI[j - 1] == r { 1int } else { 0int }) } }
// H as find_standard_H_and_cones builds it, seen from the reversal: one entry per column, value one, rows in range
pub open spec fn sel_wf(H: CscMatrix<F>) -> bool { is_selector(H, H.rowval@, H.m as int) }
pub proof fn lemma_sel_total(H: CscMatrix<F>, x: Seq<F>, r: int, j: int)
    requires sel_wf(H), 0 <= j <= H.n,
    ensures total_n(H, x, r, j) == sel_sum(H.rowval@, x, r, j),
    decreases j,
{
    broadcast use real_arith;
    if j > 0 {
        lemma_sel_total(H, x, r, j - 1);
        assert(H.colptr@[j - 1] == j - 1 && H.colptr@[j] == j);
        assert(colsum_n(H, x, r, j - 1, j - 1) == 0real);
        assert(colsum_n(H, x, r, j - 1, j) == colsum_n(H, x, r, j - 1, j - 1) + (if H.rowval@[j - 1] == r { H.nzval@[j - 1].v() * x[j - 1].v() } else { 0real }));
        assert(H.nzval@[j - 1] == f_one());
        assert(1real * x[j - 1].v() == x[j - 1].v()) by (nonlinear_arith);
    }
}
// the float row sum of a selector is the number of ones in the row (read as a real)
pub proof fn lemma_sel_rowsum(H: CscMatrix<F>, r: int, j: int)
    requires sel_wf(H), 0 <= j <= H.n,
    ensures rowsum(H.rowval@, H.nzval@, r, j).v() == sel_cnt(H.rowval@, r, j) as real,
    decreases j,
{
    broadcast use real_arith;
    if j > 0 { lemma_sel_rowsum(H, r, j - 1); assert(H.nzval@[j - 1] == f_one()); }
}
// the rows in which more than one clique block overlaps, and how many
pub open spec fn ovl_row(A: CscMatrix<F>, r: int) -> bool { f_lt(f_one(), rowsum(A.rowval@, A.nzval@, r, A.rowval@.len() as int)) }
//@fn file=src/solver/chordal/decomp/reverse_standard.rs name=number_of_overlaps_in_rows rules=R1,posall,mapcollect,R5 ret=res
//@contract
    requires A.rowval@.len() == A.nzval@.len(), rows_below(*A, A.m as int),
    ensures
        // C18 (reversal, standard form): the first list names, in increasing order, exactly the rows whose sum of entries exceeds one;
        // the second list gives that sum for each of them
        res.0@.len() == res.1@.len(), ascending(res.0@),
        forall|k: int| 0 <= k < res.0@.len() ==> (#[trigger] res.0@[k]) < A.m && ovl_row(*A, res.0@[k] as int) && res.1@[k] == rowsum(A.rowval@, A.nzval@, res.0@[k] as int, A.rowval@.len() as int),
        forall|r: int| 0 <= r < A.m && ovl_row(*A, r) ==> exists|k: int| 0 <= k < res.0@.len() && #[trigger] res.0@[k] == r,
//@pre
    let ghost nn = A.rowval@.len() as int;
//@iter 1
it1
//@loop 1
            invariant
                nn == A.rowval@.len(), n_overlaps@.len() == A.m, it1.seq().len() == A.m, pa_i1 == it1.index@, A.m <= usize::MAX,
                forall|r: int| 0 <= r < A.m ==> *(#[trigger] it1.seq()[r]) == n_overlaps@[r],
                forall|r: int| 0 <= r < A.m ==> #[trigger] n_overlaps@[r] == rowsum(A.rowval@, A.nzval@, r, nn),
                ascending(pa_out1@),
                forall|k: int| 0 <= k < pa_out1@.len() ==> (#[trigger] pa_out1@[k]) < it1.index@ && ovl_row(*A, pa_out1@[k] as int),
                forall|r: int| 0 <= r < it1.index@ && ovl_row(*A, r) ==> exists|k: int| 0 <= k < pa_out1@.len() && #[trigger] pa_out1@[k] == r,
//@body_start 1
                let ghost gi = it1.index@ as int;
                let ghost o1 = pa_out1@;
                proof { assert(*x == n_overlaps@[gi]); }
//@body_end 1
                proof {
                    assert forall|r: int| 0 <= r < gi + 1 && ovl_row(*A, r) implies exists|k: int| 0 <= k < pa_out1@.len() && #[trigger] pa_out1@[k] == r by {
                        if r < gi { let k = choose|k: int| 0 <= k < o1.len() && #[trigger] o1[k] == r; assert(pa_out1@[k] == r); }
                        else { assert(pa_out1@[o1.len() as int] == r); }
                    }
                }
//@iter 2
it2
//@loop 2
            invariant
                nn == A.rowval@.len(), n_overlaps@.len() == A.m, it2.seq().len() == ri@.len(),
                forall|k: int| 0 <= k < ri@.len() ==> *(#[trigger] it2.seq()[k]) == ri@[k],
                forall|k: int| 0 <= k < ri@.len() ==> (#[trigger] ri@[k]) < A.m,
                forall|r: int| 0 <= r < A.m ==> #[trigger] n_overlaps@[r] == rowsum(A.rowval@, A.nzval@, r, nn),
                mc_out1@.len() == it2.index@,
                forall|k: int| 0 <= k < it2.index@ ==> #[trigger] mc_out1@[k] == rowsum(A.rowval@, A.nzval@, ri@[k] as int, nn),
//@body_start 2
                proof { assert(*i_r == ri@[it2.index@ as int]); }
//@end

impl DefaultVariables<F> {
//@fn file=src/solver/implementations/default/variables.rs in="impl<T> DefaultVariables<T>" name=dims rules=R1 ret=r
//@contract
    ensures r.0 == self.x@.len(), r.1 == self.s@.len(),
//@end
}
pub open spec fn tail(v: Seq<F>, m: int) -> Seq<F> { v.subrange(m, v.len() as int) }
impl ChordalInfo<F> {
//@fn file=src/solver/chordal/decomp/reverse_standard.rs in="impl<T> ChordalInfo<T>" name=decomp_reverse_standard rules=R1,zipidx:1=vv params=new_vars,old_vars,old_cones
//@contract
    requires
        // `self.H.as_ref().unwrap()`: the standard augmentation was run (decomp_augment_standard stores H, see there)
        self.H matches Some(H) && sel_wf(H)
            // new_vars = DefaultVariables::new(n, m) of the ORIGINAL sizes, old_vars = the solution of the decomposed problem:
            // m rows of the equality block [A H] followed by one row per column of H
            && old(new_vars).s@.len() == H.m && old(new_vars).z@.len() == H.m
            && old_vars.s@.len() == H.m + H.n && old_vars.z@.len() == H.m + H.n,
    ensures
        final(new_vars).s@.len() == old(new_vars).s@.len(), final(new_vars).z@.len() == old(new_vars).z@.len(),
        final(new_vars).x@ == old(new_vars).x@,
        // C18 (mapping a solution back, standard form): s = H * s_tail: every original row receives the SUM of the clique-block entries
        // that name it;  z = H * z_tail, divided by the number of blocks that overlap in the row where there is more than one (the average)
        self.H matches Some(H) ==> forall|r: int| 0 <= r < H.m ==> (#[trigger] final(new_vars).s@[r]).v() == sel_sum(H.rowval@, tail(old_vars.s@, H.m as int), r, H.n as int),
        self.H matches Some(H) ==> forall|r: int| 0 <= r < H.m ==> (#[trigger] final(new_vars).z@[r]).v() ==
            (if sel_cnt(H.rowval@, r, H.n as int) > 1 { sel_sum(H.rowval@, tail(old_vars.z@, H.m as int), r, H.n as int) / (sel_cnt(H.rowval@, r, H.n as int) as real) }
             else { sel_sum(H.rowval@, tail(old_vars.z@, H.m as int), r, H.n as int) }),
//@pre
    broadcast use real_arith;
    let ghost Hm = self.H->0;
    let ghost hI = Hm.rowval@;
    let ghost kk = Hm.n as int;
    let ghost st = tail(old_vars.s@, Hm.m as int);
    let ghost zt = tail(old_vars.z@, Hm.m as int);
    let ghost s00 = new_vars.s@;
    let ghost z00 = new_vars.z@;
    proof { assert(Hm.colptr@[0] == 0 && Hm.colptr@[kk] == kk); }
//@before "let (rows, nnzs) ="
        let ghost zg = new_vars.z@;
        proof {
            assert forall|r: int| 0 <= r < Hm.m implies (#[trigger] new_vars.s@[r]).v() == sel_sum(hI, st, r, kk) by {
                lemma_sel_total(Hm, st, r, kk);
                let y0 = s00[r].v(); assert(0real * y0 == 0real) by (nonlinear_arith);
                let t0 = total_n(Hm, st, r, kk); assert(1real * t0 == t0) by (nonlinear_arith);
            }
            assert forall|r: int| 0 <= r < Hm.m implies (#[trigger] zg[r]).v() == sel_sum(hI, zt, r, kk) by {
                lemma_sel_total(Hm, zt, r, kk);
                let y0 = z00[r].v(); assert(0real * y0 == 0real) by (nonlinear_arith);
                let t0 = total_n(Hm, zt, r, kk); assert(1real * t0 == t0) by (nonlinear_arith);
            }
        }
//@loop 1
            invariant
                r14_n1 <= rows@.len(), r14_n1 <= nnzs@.len(), rows@.len() == nnzs@.len(), ascending(rows@), new_vars.z@.len() == zg.len(), zg.len() == Hm.m,
                new_vars.x@ == old(new_vars).x@,
                forall|k: int| 0 <= k < rows@.len() ==> (#[trigger] rows@[k]) < Hm.m,
                forall|k: int| 0 <= k < r14_i1 ==> #[trigger] new_vars.z@[rows@[k] as int] == f_div(zg[rows@[k] as int], nnzs@[k]),
                forall|r: int| 0 <= r < Hm.m && (forall|k: int| 0 <= k < r14_i1 ==> #[trigger] rows@[k] != r) ==> #[trigger] new_vars.z@[r] == zg[r],
                forall|r: int| 0 <= r < Hm.m ==> (#[trigger] new_vars.s@[r]).v() == sel_sum(hI, st, r, kk),
//@after "for r14_i1 in 0..r14_n1"
    proof {
        assert forall|r: int| 0 <= r < Hm.m implies (#[trigger] new_vars.z@[r]).v() ==
            (if sel_cnt(hI, r, kk) > 1 { sel_sum(hI, zt, r, kk) / (sel_cnt(hI, r, kk) as real) } else { sel_sum(hI, zt, r, kk) }) by {
            lemma_sel_rowsum(Hm, r, kk);
            let cnt = rowsum(Hm.rowval@, Hm.nzval@, r, kk);
            if ovl_row(Hm, r) {
                let k = choose|k: int| 0 <= k < rows@.len() && #[trigger] rows@[k] == r;
                assert(new_vars.z@[rows@[k] as int] == f_div(zg[rows@[k] as int], nnzs@[k]));
                assert(nnzs@[k] == cnt);
            } else {
                assert forall|k: int| 0 <= k < rows@.len() implies #[trigger] rows@[k] != r by { if rows@[k] == r { assert(ovl_row(Hm, rows@[k] as int)); } }
            }
        }
    }
//@end
}

} // verus!
fn main() {}
