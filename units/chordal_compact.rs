#![allow(non_snake_case)]
// unit `chordal_compact` : index-level pieces of the compact chordal decomposition, of its reversal and of the compact / standard dispatch (C18)
// (the chordal module is compiled only with the cargo feature `sdp`; directive `//@features serde,sdp` makes rule R12 / the field filter
//  evaluate `#[cfg(feature = ..)]` for that feature set, so that DefaultSettings keeps its chordal_* fields; the extractor works on source text)
//
// PROVED (real text, unbounded; panic-freedom = every index / overflow / unwrap obligation, plus the clause given):
//   decomp/augment_compact.rs
//     get_rows_subset / get_rows_vec / get_rows_mat   None => no listed row lies in row_range; Some(s..e) => exactly the positions s..e (of the
//         sorted list / of column `col`) hold the rows inside row_range.  NOTE Some may be EMPTY (rows [1, 10], row_range 3..5 gives Some(1..1)):
//         "None iff empty" does not hold; harmless, the consumers treat an empty range like None
//     get_row_index       Some(p) is THE position of the window that stores row row_range.start + k, None: no position of the window stores it
//     modify_clique_rows  v[p] <- new_row_val at exactly that position, else nothing changes
//     parent_block_indices  = packed(rank of i, rank of j) in the sorted parent clique (= packed(a, b) when i, j are its members number a, b)
//     get_block_indices   statement slice `get_block_indices_fill`: the triplet list before sorting = sep x sep (upper, overlap flag) ++
//         snode x snode (upper) ++ snode x sep (all pairs, smaller first), in this order, nothing else
//     add_clique_entries  one clique, one column: a stored entry whose cone row is the packed index of the non-overlap block index number h moves
//         to row row_ptr + h (win_state / hit); in column 0 the overlap block index c2 gets the pair (row_ptr + c2, parent_rows.start + position
//         of the same entry in the parent clique) at slots overlap_ptr + 2*#{earlier overlaps} (+1) (ov_state); b like a column, column 0 only;
//         returned pointer = overlap_ptr + 2 * #overlaps (column 0) resp. unchanged; nothing else written
//     add_entries_with_cone  (cone that is not decomposed) every stored entry of A / b with its row in the cone's rows keeps its slot and gets
//         row - row_range.start + row_ptr; no other slot written; cone copied, cone map entry (previous orig_index + 1 | 0, None) appended;
//         returns (row_ptr + nvars, overlap_ptr)
//     clique_rows_map     (real HashMap, vstd model) clique of order i owns rows row_start + sum_{k > i} tri(nblk[k]) .. + tri(nblk[i]), keyed by
//         snode_post[i]: the same rows add_entries_with_sparsity_pattern walks through in the same descending order
//     alternating_sequence (ones, then (+1, -1) pairs from n_start), extra_columns (pair t -> column start_val + t, both slots), findnz (slot k
//         carries column and value of stored entry k; slots behind A.nnz() untouched), find_A_dimension
//   decomp/reverse_compact.rs: largest_nblk (>= every block size of every pattern)
//   decomp/mod.rs: decomp_augment (the setting alone selects the form; which bookkeeping field is filled), decomp_reverse (result has the
//     original sizes (n, m, m), x = leading n entries of the internal x; no panic if H / cone_maps are consistent with the setting)
//   algebra/sparsevector/mod.rs: SparseVector::new (indices strictly increasing, exactly the entries != 0, with their values) - this is what
//     makes b's index list sorted; supernode_tree.rs: get_nblk
// ASSUMED (hand-written, not verified here):
//   coord_to_upper_triangular_index, triangular_number: contracts copied from unit scalarmath (PROVED there);
//   std: Range::clone, Range::is_empty (generic spec + admitted instance for usize: ax_range_is_empty_usize), `r.eq(0..0)` on a Range =
//     Iterator::eq = "r yields nothing" (rule `rangeeq`, helper range_yields_nothing), partition_point / min / max (prelude/std_assumed.rs, rules
//     R23 / R18), Iterator::max().unwrap_or(&0) (rule `itermax0`, helper usize_iter_max_or0), vstd's HashMap model for usize keys
//     (vstd::std_specs::hash::group_hash_axioms);
//   rule `stepby`: `for i in (a..b).step_by(k)` as the while loop a, a+k, .. < b (its `+= k` overflow obligation is discharged from
//     total_length <= usize::MAX - 2, true for any Vec);
//   SupportedConeT (opaque stand-in: nvars uninterpreted, clone returns an equal value), DefaultVariables::new (x of length n, s and z zero
//     vectors of length m);
//   ChordalInfo::{get_decomposed_dim_and_overlaps, decomp_augment_compact, decomp_augment_standard, decomp_reverse_compact,
//     decomp_reverse_standard, psd_completion}: bodies out of reach (peekable iterators, closures, LAPACK).  Assumed of them: which of H /
//     cone_maps they fill (by inspection of `self.cone_maps = Some(..)` / `self.H = Some(..)`), which of them the reversal routines unwrap
//     (their only assumed precondition - it is what pins the dispatch of decomp_reverse), that their effect on s, z is given by the uninterpreted rev_s / rev_z / completed_z, that they keep the lengths of
//     s and z and do not touch x (by inspection: they only write new_vars.s / new_vars.z).
// PRECONDITIONS and the call sites:
//   sorted rows (`rows_sorted(A)`, `colptr[0] == 0`, `nondecreasing(b.nzind)`): b.nzind by SparseVector::new (proved here); A is the user's
//     (presolved) constraint matrix and is NOT validated by DefaultSolver::new (check_format is never called on it): a user matrix with unsorted
//     row indices inside a column makes partition_point unspecified and silently yields a wrong decomposed problem (no panic);
//   add_clique_entries `overlap_ptr >= window end` and `overlap_ptr + 2 * #overlaps <= A_I.len()`: overlap_ptr starts at A.nnz() and A_I has
//     A.nnz() + 2 * n_overlaps slots (find_compact_A_b_and_cones); that n_overlaps (get_decomposed_dim_and_overlaps: sum of tri(|separator|))
//     equals the number of overlap triplets over all cliques is NOT proved here;
//   extra_columns `total_length >= 1`: holds if n_overlaps >= 1, see D3;
//   decomp_reverse `setting consistent with H / cone_maps`: VIOLABLE, see D4;
//   vertices < 2^31, pointers < 2^62: sizes of one problem in memory.
// DEFECT CANDIDATES (described, not fixed; none of them is in a function whose contract had to be weakened):
//   D2 (problemdata.rs, outside this unit but it is the call site): `try_chordal_info(A, b, &cones, settings)` analyses the ORIGINAL A, b and cones
//      while `decomp_augment` is then called with the PRESOLVED `A_new` / `b_new`.  When the presolver removes rows (a nonnegative cone with
//      entries of b >= 1e20, presolve_enable = true) and a PSD cone of order > 3 with a chordal pattern is decomposed, the row ranges held in
//      `init_cones` / `init_dims` no longer describe the matrix that is decomposed: the precondition "row_range of cone i = rows of cone i in A"
//      of add_entries_with_cone / add_entries_with_sparsity_pattern is false (slots of A_I keep usize::MAX or rows are attributed to the wrong
//      cone), and decomp_reverse returns vectors of the unreduced size m to reverse_presolve, which expects the reduced size.
//   D3 extra_columns: `v.len() - 1` underflows for total_length == 0, i.e. A.nnz() == 0 and n_overlaps == 0 (panic in debug, out-of-bounds panic at
//      v[0] in release).  NOT shown reachable: a decomposition that happens has >= 2 cliques and connect_graph makes the elimination tree
//      connected, so every non-root clique should have a non-empty separator (n_overlaps >= 1); that argument is not proved anywhere.
//   D4 decomp_reverse: `pub settings` of the solver is writable between `new` and `solve`; flipping chordal_decomposition_compact after setup
//      trips the assert_eq! (panic in solution post-processing).
// DROPPED: find_compact_A_b_and_cones, add_entries_with_sparsity_pattern (peekable, map / collect closures, deferred `let`), decomp_augment_compact
//   (blockdiag + copy; contracts of blockdiag live in unit csc_utils), the sort of get_block_indices (`sort_by_cached_key` closure) - hence NOT
//   proved: that the sorted triplets enumerate the clique block in packed order, i.e. that counter h is the packed position of (i, j) in the
//   clique; get_clique_by_index (IndexSet::extend); decomp_reverse_compact's loop over zip(old_cones, cone_maps) (its two callees are in unit
//   chordal_decomp: add_blocks_with_cone and the clique loop of add_blocks_with_sparsity_pattern; the loading of the clique buffer through
//   IndexSet iteration + sort is not covered anywhere); psd_completion / psd_complete (see unit dense_math for `complete`).
use vstd::prelude::*;
use std::ops::Range;
use std::collections::HashMap;
verus! {
global size_of usize == 8;
//@features serde,sdp
//@include prelude/float_opaque.rs
//@include prelude/vecmath_assumed.rs
//@include prelude/std_assumed.rs
// ASSUMED std: cloning a Range clones its two ends (for usize: copies them)
pub assume_specification<Idx: Clone> [<Range<Idx> as Clone>::clone] (r: &Range<Idx>) -> (c: Range<Idx>)
    ensures cloned(r.start, c.start), cloned(r.end, c.end);
// ASSUMED std: Range::is_empty as documented (vstd specifies <[T]>::is_empty / first / last)
pub uninterp spec fn range_is_empty_spec<Idx>(r: Range<Idx>) -> bool;
pub assume_specification<Idx: PartialOrd<Idx>> [Range::<Idx>::is_empty] (r: &Range<Idx>) -> (b: bool) where Idx: PartialOrd<Idx> ensures b == range_is_empty_spec::<Idx>(*r);
pub broadcast proof fn ax_range_is_empty_usize(r: Range<usize>) ensures #[trigger] range_is_empty_spec::<usize>(r) == !(r.start < r.end) { admit(); }
// vacuity guard for the admitted instance: this lemma MUST FAIL
pub proof fn canary_range_axiom() ensures false { broadcast use ax_range_is_empty_usize; }
// rule `rangeeq`: `r.eq(0..0)` on a Range<usize> is Iterator::eq (by-value receiver wins over PartialEq::eq(&self, &other)): the two
// ranges yield the same sequence, i.e. r yields nothing  (ASSUMED)
#[verifier::external_body]
pub fn range_yields_nothing(r: Range<usize>) -> (b: bool) ensures b == !(r.start < r.end) { r.eq(0..0) }

//@struct file=src/algebra/csc/core.rs name=CscMatrix
//@struct file=src/algebra/sparsevector/mod.rs name=SparseVector
//@struct file=src/solver/chordal/chordal_info.rs name=ConeMapEntry
// (usize::checked_add_signed: specified by vstd)
// stand-in for the user-facing cone enum (ASSUMED: nvars is an uninterpreted function of the cone, clone returns an equal value); as in unit chordal_decomp
pub struct SupportedConeT<T> { pub _p: Option<T>, pub tag: usize }
impl<T> SupportedConeT<T> {
    pub uninterp spec fn nvars_spec(&self) -> usize;
    #[verifier::external_body] pub fn nvars(&self) -> (r: usize) ensures r == self.nvars_spec() { unimplemented!() }
}
impl<T> Clone for SupportedConeT<T> { #[verifier::external_body] fn clone(&self) -> (r: Self) ensures r == *self { unimplemented!() } }

pub open spec fn strictly_increasing(v: Seq<usize>) -> bool { forall|a: int, b: int| 0 <= a < b < v.len() ==> v[a] < v[b] }
pub proof fn lemma_si_nondecreasing(v: Seq<usize>) requires strictly_increasing(v) ensures nondecreasing(v) {
    assert forall|i: int, j: int| 0 <= i <= j < v.len() implies v[i] <= v[j] by { if i < j { assert(v[i] < v[j]); } }
}

// ---- rows of a sorted index list that fall inside a row range ----
//@fn file=src/solver/chordal/decomp/augment_compact.rs name=get_rows_subset rules=R23 ret=res
//@contract
    requires nondecreasing(rows@),
    ensures
        // C18: None only if no listed row lies in row_range; Some(s..e): exactly the positions s..e hold the rows inside row_range
        // (for a sorted list they are contiguous).  NOTE Some(s..e) may be EMPTY (s == e): rows = [1, 10], row_range = 3..5
        res is None ==> forall|k: int| 0 <= k < rows@.len() ==> !(row_range.start <= #[trigger] rows@[k] < row_range.end),
        res matches Some(rg) ==> rg.start <= rg.end <= rows@.len()
            && (forall|k: int| rg.start <= k < rg.end ==> row_range.start <= #[trigger] rows@[k] < row_range.end)
            && (forall|k: int| 0 <= k < rg.start ==> #[trigger] rows@[k] < row_range.start)
            && (forall|k: int| rg.end <= k < rows@.len() ==> #[trigger] rows@[k] >= row_range.end),
//@pre
    broadcast use ax_range_is_empty_usize;
//@before "Some(s..e)"
    proof { if s > e { assert(rows@[e as int] >= row_range.end); assert(rows@[e as int] < row_range.start); } }
//@end

// the positions lo..hi of `rows` hold exactly the entries inside row_range (what a Some(..) of get_rows_subset / _vec / _mat means)
pub open spec fn rows_window(rows: Seq<usize>, lo: int, hi: int, from: int, to: int, rs: int, re: int) -> bool {
    &&& lo <= from <= to <= hi
    &&& forall|k: int| from <= k < to ==> rs <= #[trigger] rows[k] < re
    &&& forall|k: int| lo <= k < from ==> #[trigger] rows[k] < rs
    &&& forall|k: int| to <= k < hi ==> #[trigger] rows[k] >= re
}
//@fn file=src/solver/chordal/decomp/augment_compact.rs name=get_rows_vec rules=R1 ret=res
//@contract
    requires
        // SparseVector::new lists the indices in increasing order (proved below)
        nondecreasing(b.nzind@),
    ensures
        res is None ==> forall|k: int| 0 <= k < b.nzind@.len() ==> !(row_range.start <= #[trigger] b.nzind@[k] < row_range.end),
        res matches Some(rg) ==> rows_window(b.nzind@, 0, b.nzind@.len() as int, rg.start as int, rg.end as int, row_range.start as int, row_range.end as int),
//@end
// column pointers of a CSC matrix as the index code needs them
pub open spec fn colptr_ok(A: CscMatrix<F>) -> bool {
    &&& A.colptr@.len() == A.n + 1 && A.rowval@.len() == A.nzval@.len() && A.colptr@[A.n as int] == A.rowval@.len()
    &&& forall|a: int, b: int| 0 <= a <= b <= A.n ==> A.colptr@[a] <= A.colptr@[b]
}
pub open spec fn in_col(A: CscMatrix<F>, k: int, c: int) -> bool { 0 <= c < A.n && A.colptr@[c] <= k < A.colptr@[c + 1] }
// every stored slot at or behind colptr[0] lies in some column
pub proof fn lemma_col_of(A: CscMatrix<F>, k: int) -> (c: int)
    requires colptr_ok(A), A.colptr@[0] <= k < A.rowval@.len(),
    ensures in_col(A, k, c),
{ lemma_col_search(A, k, A.n as int) }
pub proof fn lemma_col_search(A: CscMatrix<F>, k: int, j: int) -> (c: int)
    requires colptr_ok(A), 0 <= j <= A.n, A.colptr@[0] <= k < A.colptr@[j],
    ensures in_col(A, k, c),
    decreases j,
{
    if j == 0 { 0 } else if A.colptr@[j - 1] <= k { j - 1 } else { lemma_col_search(A, k, j - 1) }
}
// row indices strictly increasing inside every column (canonical CSC)
pub open spec fn rows_sorted(A: CscMatrix<F>) -> bool { forall|c: int, k1: int, k2: int| #![trigger in_col(A, k1, c), in_col(A, k2, c)] in_col(A, k1, c) && in_col(A, k2, c) && k1 < k2 ==> A.rowval@[k1] < A.rowval@[k2] }
//@fn file=src/solver/chordal/decomp/augment_compact.rs name=get_rows_mat rules=R1 ret=res
//@contract
    requires colptr_ok(*A), rows_sorted(*A), col < A.n,
    ensures
        // C18: the stored entries of column `col` whose row lies in row_range, as a range of positions in A.rowval / A.nzval
        res is None ==> forall|k: int| #[trigger] in_col(*A, k, col as int) ==> !(row_range.start <= A.rowval@[k] < row_range.end),
        res matches Some(rg) ==> rows_window(A.rowval@, A.colptr@[col as int] as int, A.colptr@[col + 1] as int, rg.start as int, rg.end as int, row_range.start as int, row_range.end as int),
//@pre
    let ghost lo = A.colptr@[col as int] as int;
    let ghost hi = A.colptr@[col + 1] as int;
    proof {
        assert(A.colptr@[col as int] <= A.colptr@[col + 1] <= A.colptr@[A.n as int]);
        assert(A.rowval@.len() == A.rowval.len());
        assert forall|i: int, j: int| 0 <= i <= j < hi - lo implies A.rowval@.subrange(lo, hi)[i] <= A.rowval@.subrange(lo, hi)[j] by {
            if i < j { assert(in_col(*A, lo + i, col as int) && in_col(*A, lo + j, col as int)); }
        }
    }
//@closure 1
Range<usize>
(q: Range<usize>) requires colrange.start + se.end <= usize::MAX, se.start <= se.end ensures q.start == colrange.start + se.start, q.end == colrange.start + se.end
//@before "se.map("
    proof {
        if se is None {
            assert forall|k: int| #[trigger] in_col(*A, k, col as int) implies !(row_range.start <= A.rowval@[k] < row_range.end) by {
                assert(A.rowval@[k] == rows@[k - lo]);
            }
        } else {
            let rg = se->0;
            assert forall|k: int| lo + rg.start <= k < lo + rg.end implies row_range.start <= #[trigger] A.rowval@[k] < row_range.end by { assert(A.rowval@[k] == rows@[k - lo]); }
            assert forall|k: int| lo <= k < lo + rg.start implies #[trigger] A.rowval@[k] < row_range.start by { assert(A.rowval@[k] == rows@[k - lo]); }
            assert forall|k: int| lo + rg.end <= k < hi implies #[trigger] A.rowval@[k] >= row_range.end by { assert(A.rowval@[k] == rows@[k - lo]); }
        }
    }
//@end

// ---- locating the packed entry k of a PSD cone among the stored rows of one column ----
// strictly increasing on the window lo..hi
pub open spec fn si_window(rows: Seq<usize>, lo: int, hi: int) -> bool { forall|a: int, b: int| lo <= a < b < hi ==> rows[a] < rows[b] }
// in a strictly increasing window of naturals the entry at distance t from the start is at least t
pub proof fn lemma_si_distance(rows: Seq<usize>, lo: int, hi: int, p: int)
    requires si_window(rows, lo, hi), 0 <= lo <= p < hi <= rows.len(),
    ensures rows[p] >= rows[lo] + (p - lo),
    decreases p - lo,
{
    if p > lo { lemma_si_distance(rows, lo, hi, p - 1); assert(rows[p - 1] < rows[p]); }
}
//@fn file=src/solver/chordal/decomp/augment_compact.rs name=get_row_index rules=R18,R23,rangeeq ret=res
//@contract
    requires
        // the window is a range of positions of a sorted column (canonical CSC / SparseVector::new), cf. get_rows_mat / get_rows_vec
        row_range_col.start < row_range_col.end ==> row_range_col.end <= rowval@.len() && si_window(rowval@, row_range_col.start as int, row_range_col.end as int),
        // `row_range.start + k` and `row_range_col.start + k_shift + 1`: positions and rows of one matrix, far below usize::MAX
        row_range_col.start + row_range.start + k + 1 <= usize::MAX,
    ensures
        // C18: Some(p) is THE position inside the window that stores row row_range.start + k; None: no position of the window stores it
        res matches Some(p) ==> row_range_col.start <= p < row_range_col.end && rowval@[p as int] == row_range.start + k,
        res is None ==> forall|p: int| row_range_col.start <= p < row_range_col.end ==> #[trigger] rowval@[p] != row_range.start + k,
//@before "let r ="
    proof {
        assert(rowval@.len() == rowval.len());
        assert forall|i: int, j: int| 0 <= i <= j < u - l implies rowval@.subrange(l as int, u as int)[i] <= rowval@.subrange(l as int, u as int)[j] by {
            if i < j { assert(rowval@[l + i] < rowval@[l + j]); }
        }
    }
//@after "let r ="
    proof {
        let w = rowval@.subrange(l as int, u as int);
        assert forall|p: int| l <= p < row_range_col.end && #[trigger] rowval@[p] == k_shift implies p == r && r < u by {
            lemma_si_distance(rowval@, l as int, row_range_col.end as int, p);
            assert(p < u);
            assert(w[p - l] == rowval@[p]);
            if p < r { assert(w[p - l] < k_shift); }
            if p > r { assert(w[r - l] >= k_shift); assert(rowval@[r as int] < rowval@[p]); }
        }
        if r < u { assert(w[r - l] == rowval@[r as int]); }
    }
//@end
//@fn file=src/solver/chordal/decomp/augment_compact.rs name=modify_clique_rows
//@contract
    requires
        row_range_col.start < row_range_col.end ==> row_range_col.end <= rowval@.len() && si_window(rowval@, row_range_col.start as int, row_range_col.end as int),
        row_range_col.start + row_range.start + k + 1 <= usize::MAX,
        // v is Aa_I (resp. ba_I), at least as long as the row list it mirrors
        row_range_col.start < row_range_col.end ==> row_range_col.end <= old(v)@.len(),
    ensures
        // C18: if the window stores row row_range.start + k, at position p, then v[p] <- new_row_val and nothing else changes;
        // if it does not (an edge added by clique merging: a structural zero), nothing changes at all
        final(v)@.len() == old(v)@.len(),
        forall|p: int| 0 <= p < old(v)@.len() ==> #[trigger] final(v)@[p] ==
            (if row_range_col.start <= p < row_range_col.end && rowval@[p] == row_range.start + k { new_row_val } else { old(v)@[p] }),
//@pre
    proof { assert(v@.len() == v.len()); }
//@end

// ---- position of the entry (i, j) inside the parent clique block ----
pub open spec fn tri(k: int) -> int { k * (k + 1) / 2 }
pub open spec fn packed(a: int, b: int) -> int { if a <= b { tri(b) + a } else { tri(a) + b } }
// number of members of the sorted list that are smaller than x = the position of x if it is a member
pub open spec fn rank_in(v: Seq<usize>, x: int, r: int) -> bool {
    &&& 0 <= r <= v.len()
    &&& forall|k: int| 0 <= k < r ==> #[trigger] v[k] < x
    &&& forall|k: int| r <= k < v.len() ==> #[trigger] v[k] >= x
}
// the same rank as a function: how many of the first n members are smaller than x
pub open spec fn cnt_lt(v: Seq<usize>, x: int, n: int) -> int decreases n { if n <= 0 { 0 } else { cnt_lt(v, x, n - 1) + (if v[n - 1] < x { 1int } else { 0int }) } }
pub proof fn lemma_rank_is_cnt(v: Seq<usize>, x: int, r: int, n: int)
    requires rank_in(v, x, r), 0 <= n <= v.len(),
    ensures cnt_lt(v, x, n) == (if n <= r { n } else { r }),
    decreases n,
{
    if n > 0 { lemma_rank_is_cnt(v, x, r, n - 1); if n - 1 < r { assert(v[n - 1] < x); } else { assert(v[n - 1] >= x); } }
}
pub proof fn lemma_consec_even(k: int) requires k >= 0 ensures k * (k + 1) % 2 == 0 decreases k
{
    if k > 0 {
        lemma_consec_even(k - 1);
        assert(k * (k + 1) == (k - 1) * k + 2 * k) by (nonlinear_arith);
    } else {
        assert(k * (k + 1) == 0) by (nonlinear_arith) requires k == 0;
    }
}
pub proof fn lemma_tri_step(k: int) requires k >= 0 ensures tri(k + 1) == tri(k) + k + 1, tri(k) >= 0
{
    assert(k * (k + 1) >= 0) by (nonlinear_arith) requires k >= 0;
    assert((k + 1) * (k + 2) == k * (k + 1) + 2 * (k + 1)) by (nonlinear_arith);
    lemma_consec_even(k);
}
pub proof fn lemma_tri_mono(a: int, b: int) requires 0 <= a <= b ensures tri(a) <= tri(b) decreases b - a
{
    if a < b { lemma_tri_step(b - 1); lemma_tri_mono(a, b - 1); }
}
// packed indices of coordinates below 2^31 stay below 2^62
pub proof fn lemma_packed_bound(a: int, b: int)
    requires 0 <= a < 0x8000_0000, 0 <= b < 0x8000_0000,
    ensures 0 <= packed(a, b) < 0x4000_0000_0000_0000,
{
    let m = if a <= b { b } else { a };
    lemma_tri_mono(0, m); lemma_tri_mono(m, 0x7fff_ffff);
    assert(tri(0x7fff_ffff) == 0x1fff_ffff_c000_0000) by (compute);
    assert(tri(0) == 0) by (compute);
}
// ASSUMED here, PROVED in unit scalarmath
#[verifier::external_body]
fn coord_to_upper_triangular_index(coord: (usize, usize)) -> (r: usize)
    requires coord.0 < 0x8000_0000, coord.1 < 0x8000_0000,
    ensures r == packed(coord.0 as int, coord.1 as int),
{ unimplemented!() }
#[verifier::external_body]
fn triangular_number(k: usize) -> (r: usize)
    requires k < 0x1_0000_0000,
    ensures r == tri(k as int),
{ unimplemented!() }
//@fn file=src/solver/chordal/decomp/augment_compact.rs name=parent_block_indices rules=R23 ret=res
//@contract
    requires
        // `parent_clique.sort()` of distinct vertices; a clique has fewer than 2^31 members
        nondecreasing(parent_clique@), parent_clique@.len() < 0x8000_0000,
    ensures
        // C18 (overlaps are tied to the parent): the packed index, inside the parent's block, of the entry whose row / column are the
        // ranks of i and j in the sorted parent clique (= their positions, when they are members)
        exists|ir: int, jr: int| rank_in(parent_clique@, i as int, ir) && rank_in(parent_clique@, j as int, jr) && res == packed(ir, jr),
        res == packed(cnt_lt(parent_clique@, i as int, parent_clique@.len() as int), cnt_lt(parent_clique@, j as int, parent_clique@.len() as int)),
        res < 0x4000_0000_0000_0000,
        forall|a: int, b: int| 0 <= a < parent_clique@.len() && 0 <= b < parent_clique@.len() && strictly_increasing(parent_clique@)
            && #[trigger] parent_clique@[a] == i && #[trigger] parent_clique@[b] == j ==> res == packed(a, b),
//@before "coord_to_upper_triangular_index("
    proof {
        assert(rank_in(parent_clique@, i as int, ir as int) && rank_in(parent_clique@, j as int, jr as int));
        lemma_rank_is_cnt(parent_clique@, i as int, ir as int, parent_clique@.len() as int);
        lemma_rank_is_cnt(parent_clique@, j as int, jr as int, parent_clique@.len() as int);
        lemma_packed_bound(ir as int, jr as int);
        assert forall|a: int, b: int| 0 <= a < parent_clique@.len() && 0 <= b < parent_clique@.len() && strictly_increasing(parent_clique@)
            && #[trigger] parent_clique@[a] == i && #[trigger] parent_clique@[b] == j implies a == ir && b == jr by {
            if a < ir { assert(parent_clique@[a] < i); }
            if a > ir { assert(parent_clique@[ir as int] >= i); assert(parent_clique@[ir as int] < parent_clique@[a]); }
            if b < jr { assert(parent_clique@[b] < j); }
            if b > jr { assert(parent_clique@[jr as int] >= j); assert(parent_clique@[jr as int] < parent_clique@[b]); }
        }
    }
//@end

// ---- the triplet arrays of the augmented A ----
//@fn file=src/solver/chordal/decomp/augment_compact.rs name=alternating_sequence rules=R1,stepby ret=res
//@contract
    requires
        // the synthesised `sb_it += 2` must not wrap (a Vec never has more than isize::MAX elements)
        total_length <= usize::MAX - 2, n_start < usize::MAX,
    ensures
        // C18 (overlaps tied by consistency constraints): A.nnz() ones, then (+1, -1) for every overlap
        res@.len() == total_length,
        forall|i: int| 0 <= i < total_length ==> #[trigger] res@[i] == (if i > n_start && (i - n_start) % 2 == 1 { f_neg(f_one()) } else { f_one() }),
//@loop 1
        invariant
            v@.len() == total_length, total_length <= usize::MAX - 2, sb_end1 == total_length, sb_it1 >= n_start + 1, (sb_it1 - n_start) % 2 == 1,
            sb_it1 <= total_length + 1 || sb_it1 == n_start + 1,
            forall|i: int| 0 <= i < total_length ==> #[trigger] v@[i] == (if n_start < i < sb_it1 && (i - n_start) % 2 == 1 { f_neg(f_one()) } else { f_one() }),
        decreases sb_end1 + 2 - sb_it1,
//@end
//@fn file=src/solver/chordal/decomp/augment_compact.rs name=extra_columns rules=stepby ret=res
//@contract
    requires
        // `v.len() - 1` underflows for total_length == 0  (see the unit header: reachable with an A that stores no entry)
        total_length >= 1,
        total_length <= usize::MAX - 2, start_val + total_length <= usize::MAX,
    ensures
        // C18: the columns of the +1 / -1 pair number t are both start_val + t (one new column per overlap); the first n_start
        // slots (filled by findnz afterwards) and an unpaired last slot are 0
        res@.len() == total_length,
        forall|i: int| 0 <= i < total_length ==> #[trigger] res@[i] ==
            (if i >= n_start && n_start + 2 * ((i - n_start) / 2) + 1 < total_length { (start_val + (i - n_start) / 2) as usize } else { 0usize }),
//@pre
    let ghost sv0 = start_val as int;
//@loop 1
        invariant
            v@.len() == total_length, total_length >= 1, total_length <= usize::MAX - 2, sv0 + total_length <= usize::MAX, sb_end1 == total_length - 1,
            sb_it1 >= n_start, (sb_it1 - n_start) % 2 == 0, start_val == sv0 + (sb_it1 - n_start) / 2, sb_it1 <= total_length + 1 || sb_it1 == n_start,
            forall|i: int| 0 <= i < total_length ==> #[trigger] v@[i] ==
                (if n_start <= i < sb_it1 && n_start + 2 * ((i - n_start) / 2) + 1 < total_length { (sv0 + (i - n_start) / 2) as usize } else { 0usize }),
        decreases sb_end1 + 2 - sb_it1,
//@end
//@fn file=src/solver/chordal/decomp/augment_compact.rs name=findnz rules=R1 params=J,V,Sm
//@contract
    requires
        colptr_ok(*Sm), Sm.colptr@[0] == 0,
        // J and V were allocated with A.nnz() + 2 * n_overlaps slots
        old(J)@.len() >= Sm.nzval@.len(), old(V)@.len() >= Sm.nzval@.len(),
    ensures
        final(J)@.len() == old(J)@.len(), final(V)@.len() == old(V)@.len(),
        // C18 (every entry of the original constraint rows appears exactly once): slot k of the triplet arrays carries the column and
        // the value of the stored entry k of A; the slots of the overlap entries behind them are not touched
        forall|k: int, c: int| #[trigger] in_col(*Sm, k, c) ==> final(J)@[k] == c && final(V)@[k] == Sm.nzval@[k],
        forall|k: int| Sm.nzval@.len() <= k < old(J)@.len() ==> #[trigger] final(J)@[k] == old(J)@[k],
        forall|k: int| Sm.nzval@.len() <= k < old(V)@.len() ==> #[trigger] final(V)@[k] == old(V)@[k],
//@pre
    proof { assert(J@.len() == J.len() && V@.len() == V.len()); }
//@loop 1
        invariant
            colptr_ok(*Sm), Sm.colptr@[0] == 0, J@.len() == old(J)@.len(), V@.len() == old(V)@.len(), J@.len() >= Sm.nzval@.len(), V@.len() >= Sm.nzval@.len(),
            count == Sm.colptr@[$var1 as int],
            forall|k: int, c: int| #[trigger] in_col(*Sm, k, c) && c < $var1 ==> J@[k] == c && V@[k] == Sm.nzval@[k],
            forall|k: int| count <= k < J@.len() ==> #[trigger] J@[k] == old(J)@[k],
            forall|k: int| count <= k < V@.len() ==> #[trigger] V@[k] == old(V)@[k],
//@body_start 1
        proof { assert(Sm.colptr@[$var1 as int] <= Sm.colptr@[$var1 + 1] <= Sm.colptr@[Sm.n as int]); }
//@body_end 1
        proof {
            assert(count == Sm.colptr@[$var1 + 1]);
            assert forall|k: int, c: int| #[trigger] in_col(*Sm, k, c) && c < $var1 + 1 implies J@[k] == c && V@[k] == Sm.nzval@[k] by {
                if c == $var1 { assert(k < Sm.colptr@[$var1 + 1]); }
            }
        }
//@loop 2
            invariant
                colptr_ok(*Sm), Sm.colptr@[0] == 0, J@.len() == old(J)@.len(), V@.len() == old(V)@.len(), J@.len() >= Sm.nzval@.len(), V@.len() >= Sm.nzval@.len(),
                $var1 < Sm.n, Sm.colptr@[$var1 as int] <= Sm.colptr@[$var1 + 1] <= Sm.nzval@.len(), count == $var2,
                forall|k: int, c: int| #[trigger] in_col(*Sm, k, c) && (c < $var1 || (c == $var1 && k < count)) ==> J@[k] == c && V@[k] == Sm.nzval@[k],
                forall|k: int| count <= k < J@.len() ==> #[trigger] J@[k] == old(J)@[k],
                forall|k: int| count <= k < V@.len() ==> #[trigger] V@[k] == old(V)@[k],
//@end

// ---- one clique, one column of A: rows of the clique's entries and the +1 / -1 overlap pairs ----
//@type file=src/solver/chordal/decomp/augment_compact.rs name=BlockOverlapTriplet
// number of overlap entries among the first n block indices
pub open spec fn n_ov(bi: Seq<BlockOverlapTriplet>, n: int) -> int decreases n { if n <= 0 { 0 } else { n_ov(bi, n - 1) + (if bi[n - 1].2 { 1int } else { 0int }) } }
pub proof fn lemma_n_ov_mono(bi: Seq<BlockOverlapTriplet>, a: int, b: int)
    requires 0 <= a <= b,
    ensures 0 <= n_ov(bi, a) <= n_ov(bi, b), a < b && bi[a].2 ==> n_ov(bi, a) + 1 <= n_ov(bi, b),
    decreases b,
{ if a < b { lemma_n_ov_mono(bi, a, b - 1); } else if a > 0 { lemma_n_ov_mono(bi, a - 1, a - 1); } }
// the last non-overlap entry among the first n block indices whose cone row (rs + packed index) is `row`; -1 if there is none
pub open spec fn hit(bi: Seq<BlockOverlapTriplet>, rs: int, row: int, n: int) -> int decreases n {
    if n <= 0 { -1 } else if !bi[n - 1].2 && rs + packed(bi[n - 1].0 as int, bi[n - 1].1 as int) == row { n - 1 } else { hit(bi, rs, row, n - 1) } }
pub proof fn lemma_hit_range(bi: Seq<BlockOverlapTriplet>, rs: int, row: int, n: int)
    requires n >= 0, ensures -1 <= hit(bi, rs, row, n) < n || (n == 0 && hit(bi, rs, row, n) == -1), decreases n,
{ if n > 0 { lemma_hit_range(bi, rs, row, n - 1); } }
// the rows written for the window wlo..whi of a sorted row list after c block indices: an entry stored as row rs + packed(i, j) of a
// non-overlap block index (i, j) number h gets row row_ptr + h
pub open spec fn win_state(I: Seq<usize>, I0: Seq<usize>, rows: Seq<usize>, bi: Seq<BlockOverlapTriplet>, row_ptr: int, rs: int, wlo: int, whi: int, c: int) -> bool {
    &&& I.len() == I0.len()
    &&& forall|p: int| 0 <= p < I.len() && wlo <= p < whi ==> #[trigger] I[p] == (if hit(bi, rs, rows[p] as int, c) >= 0 { (row_ptr + hit(bi, rs, rows[p] as int, c)) as usize } else { I0[p] })
}
// the overlap pairs written so far (first column only): pair number n_ov(bi, c2) belongs to the overlap block index c2 and holds the row of
// that entry in this clique (+1) and the row of the same entry in the parent clique (-1)
pub open spec fn ov_state(I: Seq<usize>, bi: Seq<BlockOverlapTriplet>, pc: Seq<usize>, prs: int, row_ptr: int, ovp0: int, c: int) -> bool {
    forall|c2: int| 0 <= c2 < c && (#[trigger] bi[c2]).2 ==> {
        &&& I[ovp0 + 2 * n_ov(bi, c2)] == row_ptr + c2
        &&& I[ovp0 + 2 * n_ov(bi, c2) + 1] == prs + packed(cnt_lt(pc, bi[c2].0 as int, pc.len() as int), cnt_lt(pc, bi[c2].1 as int, pc.len() as int)) }
}
//@fn file=src/solver/chordal/decomp/augment_compact.rs name=add_clique_entries rules=R3,R5 ret=res
//@contract
    requires
        // the windows are position ranges of sorted row lists (get_rows_mat / get_rows_vec, else 0..0), mirrored by A_I / b_I
        row_range_col.start < row_range_col.end ==> row_range_col.end <= A_rowval@.len() && row_range_col.end <= old(A_I)@.len() && si_window(A_rowval@, row_range_col.start as int, row_range_col.end as int),
        row_range_b.start < row_range_b.end ==> row_range_b.end <= b_nzind@.len() && row_range_b.end <= old(b_I)@.len() && si_window(b_nzind@, row_range_b.start as int, row_range_b.end as int),
        // the overlap pairs live behind the entries of A (overlap_ptr starts at A.nnz()) and fit into A_I
        col == 0 ==> overlap_ptr + 2 * n_ov(block_indices@, block_indices@.len() as int) <= old(A_I)@.len(),
        col == 0 && row_range_col.start < row_range_col.end ==> row_range_col.end <= overlap_ptr,
        // vertices below 2^31, sorted parent clique with fewer than 2^31 members, sizes of one problem
        forall|c: int| 0 <= c < block_indices@.len() ==> (#[trigger] block_indices@[c]).0 < 0x8000_0000 && block_indices@[c].1 < 0x8000_0000,
        nondecreasing(parent_clique@), parent_clique@.len() < 0x8000_0000, parent_rows.start < 0x4000_0000_0000_0000,
        row_range_col.start + row_range.start < 0x4000_0000_0000_0000, row_range_b.start + row_range.start < 0x4000_0000_0000_0000,
        row_ptr + block_indices@.len() <= usize::MAX,
    ensures
        // C18 (every entry exactly once; overlaps tied by consistency constraints), for one clique and one column:
        //  - an entry of the column whose cone row is the packed index of a non-overlap block index number h moves to row row_ptr + h;
        //  - in the first column every overlap block index gets a (+1, -1) pair: its own row, and the row of the same entry in the parent clique;
        //  - b is treated like a column, in the first column only; nothing else is written
        res == overlap_ptr + (if col == 0 { 2 * n_ov(block_indices@, block_indices@.len() as int) } else { 0int }),
        win_state(final(A_I)@, old(A_I)@, A_rowval@, block_indices@, row_ptr as int, row_range.start as int, row_range_col.start as int, row_range_col.end as int, block_indices@.len() as int),
        col == 0 ==> ov_state(final(A_I)@, block_indices@, parent_clique@, parent_rows.start as int, row_ptr as int, overlap_ptr as int, block_indices@.len() as int),
        forall|p: int| 0 <= p < old(A_I)@.len() && !(row_range_col.start <= p < row_range_col.end) && !(col == 0 && overlap_ptr <= p < res) ==> #[trigger] final(A_I)@[p] == old(A_I)@[p],
        col == 0 ==> win_state(final(b_I)@, old(b_I)@, b_nzind@, block_indices@, row_ptr as int, row_range.start as int, row_range_b.start as int, row_range_b.end as int, block_indices@.len() as int),
        col == 0 ==> forall|p: int| 0 <= p < old(b_I)@.len() && !(row_range_b.start <= p < row_range_b.end) ==> #[trigger] final(b_I)@[p] == old(b_I)@[p],
        col != 0 ==> final(b_I)@ == old(b_I)@,
//@pre
    let ghost bi = block_indices@;
    let ghost nb = block_indices@.len() as int;
    let ghost ovp0 = overlap_ptr as int;
    let ghost rs = row_range.start as int;
    let ghost wlo = row_range_col.start as int;
    let ghost whi = row_range_col.end as int;
    let ghost blo = row_range_b.start as int;
    let ghost bhi = row_range_b.end as int;
    let ghost pc = parent_clique@;
    let ghost prs = parent_rows.start as int;
    proof { assert(A_I@.len() == A_I.len() && b_I@.len() == b_I.len() && block_indices@.len() == block_indices.len()); }
//@iter 1
it
//@loop 1
        invariant
            bi == block_indices@, nb == bi.len(), rs == row_range.start, wlo == row_range_col.start, whi == row_range_col.end, blo == row_range_b.start, bhi == row_range_b.end,
            pc == parent_clique@, prs == parent_rows.start, prs < 0x4000_0000_0000_0000, nondecreasing(pc), pc.len() < 0x8000_0000,
            wlo + rs < 0x4000_0000_0000_0000, blo + rs < 0x4000_0000_0000_0000, row_ptr + nb <= usize::MAX, nb <= usize::MAX,
            counter_ctr == it.index@, it.seq().len() == nb, forall|c: int| 0 <= c < nb ==> *(#[trigger] it.seq()[c]) == bi[c],
            forall|c: int| 0 <= c < nb ==> (#[trigger] bi[c]).0 < 0x8000_0000 && bi[c].1 < 0x8000_0000,
            wlo < whi ==> whi <= A_rowval@.len() && whi <= A_I@.len() && si_window(A_rowval@, wlo, whi),
            blo < bhi ==> bhi <= b_nzind@.len() && bhi <= b_I@.len() && si_window(b_nzind@, blo, bhi),
            col == 0 ==> ovp0 + 2 * n_ov(bi, nb) <= A_I@.len(), col == 0 && wlo < whi ==> whi <= ovp0,
            A_I@.len() == old(A_I)@.len(), b_I@.len() == old(b_I)@.len(), ovp0 >= 0,
            overlap_ptr == ovp0 + (if col == 0 { 2 * n_ov(bi, it.index@ as int) } else { 0int }),
            win_state(A_I@, old(A_I)@, A_rowval@, bi, row_ptr as int, rs, wlo, whi, it.index@ as int),
            col == 0 ==> ov_state(A_I@, bi, pc, prs, row_ptr as int, ovp0, it.index@ as int),
            forall|p: int| 0 <= p < A_I@.len() && !(wlo <= p < whi) && !(col == 0 && ovp0 <= p < overlap_ptr) ==> #[trigger] A_I@[p] == old(A_I)@[p],
            col == 0 ==> win_state(b_I@, old(b_I)@, b_nzind@, bi, row_ptr as int, rs, blo, bhi, it.index@ as int),
            col == 0 ==> forall|p: int| 0 <= p < b_I@.len() && !(blo <= p < bhi) ==> #[trigger] b_I@[p] == old(b_I)@[p],
            col != 0 ==> b_I@ == old(b_I)@,
//@body_start 1
        let ghost gc = it.index@ as int;
        let ghost ai1 = A_I@;
        let ghost bi1 = b_I@;
        proof {
            assert(*block_idx_r == bi[gc]);
            lemma_n_ov_mono(bi, gc, gc + 1); lemma_n_ov_mono(bi, gc + 1, nb);
            lemma_packed_bound(bi[gc].0 as int, bi[gc].1 as int);
        }
//@body_end 1
        proof {
            let cur = bi[gc];
            // the window of A
            assert forall|p: int| 0 <= p < A_I@.len() && wlo <= p < whi implies #[trigger] A_I@[p] == (if hit(bi, rs, A_rowval@[p] as int, gc + 1) >= 0 { (row_ptr + hit(bi, rs, A_rowval@[p] as int, gc + 1)) as usize } else { old(A_I)@[p] }) by {
                assert(ai1[p] == (if hit(bi, rs, A_rowval@[p] as int, gc) >= 0 { (row_ptr + hit(bi, rs, A_rowval@[p] as int, gc)) as usize } else { old(A_I)@[p] }));
                lemma_hit_range(bi, rs, A_rowval@[p] as int, gc);
            }
            if col == 0 {
                assert forall|p: int| 0 <= p < b_I@.len() && blo <= p < bhi implies #[trigger] b_I@[p] == (if hit(bi, rs, b_nzind@[p] as int, gc + 1) >= 0 { (row_ptr + hit(bi, rs, b_nzind@[p] as int, gc + 1)) as usize } else { old(b_I)@[p] }) by {
                    assert(bi1[p] == (if hit(bi, rs, b_nzind@[p] as int, gc) >= 0 { (row_ptr + hit(bi, rs, b_nzind@[p] as int, gc)) as usize } else { old(b_I)@[p] }));
                    lemma_hit_range(bi, rs, b_nzind@[p] as int, gc);
                }
                // the overlap pairs
                assert forall|c2: int| 0 <= c2 < gc + 1 && (#[trigger] bi[c2]).2 implies
                    A_I@[ovp0 + 2 * n_ov(bi, c2)] == row_ptr + c2
                    && A_I@[ovp0 + 2 * n_ov(bi, c2) + 1] == prs + packed(cnt_lt(pc, bi[c2].0 as int, pc.len() as int), cnt_lt(pc, bi[c2].1 as int, pc.len() as int)) by {
                    lemma_n_ov_mono(bi, 0, c2); lemma_n_ov_mono(bi, gc, nb);
                    if c2 < gc {
                        lemma_n_ov_mono(bi, c2, gc);
                        let q = ovp0 + 2 * n_ov(bi, c2);
                        assert(0 <= q && q + 1 < ovp0 + 2 * n_ov(bi, gc) && q + 1 < ai1.len());
                        assert(ai1[q] == row_ptr + c2);
                        assert(ai1[q + 1] == prs + packed(cnt_lt(pc, bi[c2].0 as int, pc.len() as int), cnt_lt(pc, bi[c2].1 as int, pc.len() as int)));
                        assert(A_I@[q] == ai1[q] && A_I@[q + 1] == ai1[q + 1]);
                    } else {
                        assert(n_ov(bi, gc + 1) == n_ov(bi, gc) + 1);
                    }
                }
            }
        }
//@end

// ---- the (i, j, is_overlap) triplets of one clique, before they are sorted ----
// pairs (v[k], v[j]), k < kk, with v[k] <= v[j], in the order of k
pub open spec fn le_row(v: Seq<usize>, j: int, kk: int, flag: bool) -> Seq<BlockOverlapTriplet> decreases kk {
    if kk <= 0 { Seq::empty() } else if v[kk - 1] <= v[j] { le_row(v, j, kk - 1, flag).push((v[kk - 1], v[j], flag)) } else { le_row(v, j, kk - 1, flag) } }
pub open spec fn le_all(v: Seq<usize>, jj: int, flag: bool) -> Seq<BlockOverlapTriplet> decreases jj {
    if jj <= 0 { Seq::empty() } else { le_all(v, jj - 1, flag) + le_row(v, jj - 1, v.len() as int, flag) } }
pub open spec fn umin(a: usize, b: usize) -> usize { if a <= b { a } else { b } }
pub open spec fn umax(a: usize, b: usize) -> usize { if a >= b { a } else { b } }
// pairs of s[i] with t[k], k < kk, smaller one first
pub open spec fn cross_row(s: Seq<usize>, t: Seq<usize>, i: int, kk: int) -> Seq<BlockOverlapTriplet> decreases kk {
    if kk <= 0 { Seq::empty() } else { cross_row(s, t, i, kk - 1).push((umin(s[i], t[kk - 1]), umax(s[i], t[kk - 1]), false)) } }
pub open spec fn cross_all(s: Seq<usize>, t: Seq<usize>, ii: int) -> Seq<BlockOverlapTriplet> decreases ii {
    if ii <= 0 { Seq::empty() } else { cross_all(s, t, ii - 1) + cross_row(s, t, ii - 1, t.len() as int) } }
// statement slice of get_block_indices: the three loop nests that collect the triplets.  DROPPED: `N`, the allocation
// `Vec::with_capacity(triangular_number(N))` (the vector starts empty: precondition), the final
// `block_indices.sort_by_cached_key(|x| x.1 * nv + x.0)` (closure; std sort) and the return of the vector.
//@fn file=src/solver/chordal/decomp/augment_compact.rs name=get_block_indices as=get_block_indices_fill rules=R5,R18,setiter:snode|separator from="for &j in separator.iter()" to="for &i in snode {" header="fn get_block_indices_fill(snode: &[usize], separator: &[usize], block_indices: &mut Vec<BlockOverlapTriplet>)"
//@contract
    ensures
        // C18: the entries of the clique block: separator x separator (upper triangle, flagged as overlap with the parent), supernode x
        // supernode (upper triangle), supernode x separator (all pairs, smaller vertex first); in this order, nothing else
        final(block_indices)@ == old(block_indices)@ + le_all(separator@, separator@.len() as int, true) + le_all(snode@, snode@.len() as int, false)
            + cross_all(snode@, separator@, snode@.len() as int),
//@pre
    let ghost b0 = block_indices@;
    let ghost sep = separator@;
    let ghost sn = snode@;
    let ghost pa = le_all(sep, sep.len() as int, true);
    let ghost pb = le_all(sn, sn.len() as int, false);
//@iter 1
it1
//@loop 1
        invariant
            sep == separator@, it1.seq().len() == sep.len(), forall|k: int| 0 <= k < sep.len() ==> *(#[trigger] it1.seq()[k]) == sep[k],
            block_indices@ =~= b0 + le_all(sep, it1.index@ as int, true),
//@body_start 1
        let ghost gj = it1.index@ as int;
//@iter 2
it2
//@loop 2
            invariant
                sep == separator@, it2.seq().len() == sep.len(), forall|k: int| 0 <= k < sep.len() ==> *(#[trigger] it2.seq()[k]) == sep[k],
                0 <= gj < sep.len(), j == sep[gj],
                block_indices@ =~= b0 + le_all(sep, gj, true) + le_row(sep, gj, it2.index@ as int, true),
//@iter 3
it3
//@loop 3
        invariant
            sn == snode@, it3.seq().len() == sn.len(), forall|k: int| 0 <= k < sn.len() ==> *(#[trigger] it3.seq()[k]) == sn[k],
            block_indices@ =~= b0 + pa + le_all(sn, it3.index@ as int, false),
//@body_start 3
        let ghost gj = it3.index@ as int;
//@iter 4
it4
//@loop 4
            invariant
                sn == snode@, it4.seq().len() == sn.len(), forall|k: int| 0 <= k < sn.len() ==> *(#[trigger] it4.seq()[k]) == sn[k],
                0 <= gj < sn.len(), j == sn[gj],
                block_indices@ =~= b0 + pa + le_all(sn, gj, false) + le_row(sn, gj, it4.index@ as int, false),
//@iter 5
it5
//@loop 5
        invariant
            sn == snode@, sep == separator@, it5.seq().len() == sn.len(), forall|k: int| 0 <= k < sn.len() ==> *(#[trigger] it5.seq()[k]) == sn[k],
            block_indices@ =~= b0 + pa + pb + cross_all(sn, sep, it5.index@ as int),
//@body_start 5
        let ghost gi = it5.index@ as int;
//@iter 6
it6
//@loop 6
            invariant
                sn == snode@, sep == separator@, it6.seq().len() == sep.len(), forall|k: int| 0 <= k < sep.len() ==> *(#[trigger] it6.seq()[k]) == sep[k],
                0 <= gi < sn.len(), i == sn[gi],
                block_indices@ =~= b0 + pa + pb + cross_all(sn, sep, gi) + cross_row(sn, sep, gi, it6.index@ as int),
//@end

// ---- row ranges of the clique blocks of one decomposed cone ----
// rows taken by the cliques i+1 .. n-1 (they come first: the loop runs in descending order)
pub open spec fn rows_after(nblk: Seq<usize>, i: int, n: int) -> int decreases n - i { if i + 1 >= n { 0 } else { rows_after(nblk, i + 1, n) + tri(nblk[i + 1] as int) } }
pub proof fn lemma_rows_after_mono(nblk: Seq<usize>, j: int, i: int, n: int)
    requires j <= i,
    ensures 0 <= rows_after(nblk, i, n) <= rows_after(nblk, j, n),
    decreases i - j, n - i,
{
    if j < i { lemma_rows_after_mono(nblk, j + 1, i, n); if j + 1 < n { lemma_tri_step(nblk[j + 1] as int); } }
    else if i + 1 < n { lemma_rows_after_mono(nblk, i + 1, i + 1, n); lemma_tri_step(nblk[i + 1] as int); }
}
pub open spec fn crm_entry(m: Map<usize, Range<usize>>, key: usize, lo: int, hi: int) -> bool { m.contains_key(key) && m[key].start == lo && m[key].end == hi }
impl SuperNodeTree {
//@fn file=src/solver/chordal/supernode_tree.rs in="impl SuperNodeTree" name=get_nblk ret=r
//@contract
    requires self.nblk is Some, i < self.nblk->0@.len(),
    ensures r == self.nblk->0@[i as int],
//@end
}
//@fn file=src/solver/chordal/decomp/augment_compact.rs name=clique_rows_map ret=res
//@contract
    requires
        sntree.nblk is Some, sntree.n_cliques <= sntree.nblk->0@.len(), sntree.n_cliques <= sntree.snode_post@.len(),
        forall|i: int| 0 <= i < sntree.n_cliques ==> #[trigger] sntree.nblk->0@[i] < 0x1_0000_0000,
        // the post order lists every clique once
        forall|i: int, k: int| 0 <= i < k < sntree.n_cliques ==> sntree.snode_post@[i] != sntree.snode_post@[k],
        row_start + rows_after(sntree.nblk->0@, -1, sntree.n_cliques as int) <= usize::MAX,
    ensures
        // C18 (overlaps tied to the parent block): the clique of order i owns the rows that add_entries_with_sparsity_pattern gives it when it
        // walks the cliques in the same descending order: the blocks of the cliques i+1.. come first, then tri(nblk[i]) rows; keyed by clique number
        forall|i: int| 0 <= i < sntree.n_cliques ==> crm_entry(res@, #[trigger] sntree.snode_post@[i], row_start + rows_after(sntree.nblk->0@, i, sntree.n_cliques as int),
            row_start + rows_after(sntree.nblk->0@, i, sntree.n_cliques as int) + tri(sntree.nblk->0@[i] as int)),
//@pre
    broadcast use vstd::std_specs::hash::group_hash_axioms;
    let ghost rs0 = row_start as int;
    let ghost nb = sntree.nblk->0@;
    let ghost nn = sntree.n_cliques as int;
//@iter 1
it
//@loop 1
        invariant
            nb == sntree.nblk->0@, nn == sntree.n_cliques, n_cliques == nn, sntree.nblk is Some, nn <= nb.len(), nn <= sntree.snode_post@.len(), rs0 >= 0,
            forall|i: int| 0 <= i < nn ==> #[trigger] nb[i] < 0x1_0000_0000,
            forall|i: int, k: int| 0 <= i < k < nn ==> sntree.snode_post@[i] != sntree.snode_post@[k],
            rs0 + rows_after(nb, -1, nn) <= usize::MAX,
            it.seq().len() == nn, forall|k: int| 0 <= k < nn ==> #[trigger] it.seq()[k] == nn - 1 - k,
            row_start == rs0 + rows_after(nb, nn - 1 - it.index@, nn),
            forall|i: int| nn - it.index@ <= i < nn ==> crm_entry(out@, #[trigger] sntree.snode_post@[i], rs0 + rows_after(nb, i, nn), rs0 + rows_after(nb, i, nn) + tri(nb[i] as int)),
//@body_start 1
        broadcast use vstd::std_specs::hash::group_hash_axioms;
        let ghost gi = nn - 1 - it.index@;
        let ghost out0: Map<usize, Range<usize>> = out@;
        proof {
            assert($var1 == gi);
            assert(rows_after(nb, gi - 1, nn) == rows_after(nb, gi, nn) + tri(nb[gi] as int));
            lemma_rows_after_mono(nb, -1, gi - 1, nn);
        }
//@body_end 1
        proof {
            assert forall|i: int| gi <= i < nn implies crm_entry(out@, #[trigger] sntree.snode_post@[i], rs0 + rows_after(nb, i, nn), rs0 + rows_after(nb, i, nn) + tri(nb[i] as int)) by {
                if i > gi { assert(sntree.snode_post@[gi] != sntree.snode_post@[i]); assert(crm_entry(out0, sntree.snode_post@[i], rs0 + rows_after(nb, i, nn), rs0 + rows_after(nb, i, nn) + tri(nb[i] as int))); }
            }
        }
//@end

// ---- the sparse form of b (establishes the sortedness that get_rows_vec / get_row_index rely on) ----
impl SparseVector<F> {
//@fn file=src/algebra/sparsevector/mod.rs in="impl<T> SparseVector<T>" name=new rules=R1,R3,R5 ret=res
//@contract
    ensures
        res.n == values@.len(), res.nzind@.len() == res.nzval@.len(), strictly_increasing(res.nzind@),
        // the listed positions are exactly the entries that are != 0, with their values
        forall|k: int| 0 <= k < res.nzind@.len() ==> (#[trigger] res.nzind@[k]) < values@.len() && !f_eq(values@[res.nzind@[k] as int], f_zero()) && res.nzval@[k] == values@[res.nzind@[k] as int],
        forall|i: int| 0 <= i < values@.len() && !f_eq(#[trigger] values@[i], f_zero()) ==> exists|k: int| 0 <= k < res.nzind@.len() && res.nzind@[k] == i,
//@pre
    proof { assert(values@.len() == values.len()); }
//@iter 1
it
//@loop 1
        invariant
            i_ctr == it.index@, n == it.index@, it.seq().len() == values@.len(), values@.len() <= usize::MAX,
            forall|k: int| 0 <= k < it.seq().len() ==> *(#[trigger] it.seq()[k]) == values@[k],
            nzind@.len() == nzval@.len(), strictly_increasing(nzind@),
            forall|k: int| 0 <= k < nzind@.len() ==> (#[trigger] nzind@[k]) < it.index@ && !f_eq(values@[nzind@[k] as int], f_zero()) && nzval@[k] == values@[nzind@[k] as int],
            forall|i: int| 0 <= i < it.index@ && !f_eq(#[trigger] values@[i], f_zero()) ==> exists|k: int| 0 <= k < nzind@.len() && nzind@[k] == i,
//@body_start 1
            let ghost ind0 = nzind@;
            let ghost gi = it.index@ as int;
//@body_end 1
            proof {
                assert forall|i: int| 0 <= i < gi + 1 && !f_eq(#[trigger] values@[i], f_zero()) implies exists|k: int| 0 <= k < nzind@.len() && nzind@[k] == i by {
                    if i < gi {
                        let k = choose|k: int| 0 <= k < ind0.len() && ind0[k] == i;
                        assert(nzind@[k] == i);
                    } else { assert(nzind@[ind0.len() as int] == i); }
                }
                assert(strictly_increasing(nzind@)) by {
                    assert forall|a: int, b: int| 0 <= a < b < nzind@.len() implies nzind@[a] < nzind@[b] by {
                        if b < ind0.len() { assert(ind0[a] < ind0[b]); } else { assert(ind0[a] < gi); }
                    }
                }
            }
//@end
}

// ---- a cone that is not decomposed: its rows are shifted as a block ----
// where row `r` of the original cone (rows row_range) goes when the cone's block starts at row_ptr in the decomposed problem
pub open spec fn shifted(r: int, rs: int, row_ptr: int) -> int { r - rs + row_ptr }
//@fn file=src/solver/chordal/decomp/augment_compact.rs name=add_entries_with_cone rules=R1 ret=res
//@contract
    requires
        colptr_ok(*A), A.colptr@[0] == 0, rows_sorted(*A), nondecreasing(b.nzind@),
        old(Aa_I)@.len() >= A.rowval@.len(), old(ba_I)@.len() >= b.nzind@.len(),
        // sizes of one problem: the casts to isize are exact, the shifted rows and the running pointers fit
        row_ptr <= isize::MAX, row_range.start <= isize::MAX, row_range.start <= row_range.end,
        row_ptr + (row_range.end - row_range.start) <= usize::MAX, row_ptr + cone.nvars_spec() <= usize::MAX,
        old(cone_maps)@.len() > 0 ==> old(cone_maps)@[old(cone_maps)@.len() - 1].orig_index < usize::MAX,
    ensures
        final(Aa_I)@.len() == old(Aa_I)@.len(), final(ba_I)@.len() == old(ba_I)@.len(),
        // C18 (every entry of the original rows appears exactly once): every stored entry of A resp. b whose row lies in the cone's
        // rows keeps its slot and gets the row shifted by row_ptr - row_range.start; no other slot is written
        forall|k: int| 0 <= k < old(Aa_I)@.len() ==> #[trigger] final(Aa_I)@[k] ==
            (if k < A.rowval@.len() && row_range.start <= A.rowval@[k] < row_range.end { shifted(A.rowval@[k] as int, row_range.start as int, row_ptr as int) as usize } else { old(Aa_I)@[k] }),
        forall|k: int| 0 <= k < old(ba_I)@.len() ==> #[trigger] final(ba_I)@[k] ==
            (if k < b.nzind@.len() && row_range.start <= b.nzind@[k] < row_range.end { shifted(b.nzind@[k] as int, row_range.start as int, row_ptr as int) as usize } else { old(ba_I)@[k] }),
        // the cone is copied, its map entry names the next original cone and no clique
        final(cones_new)@ == old(cones_new)@.push(*cone),
        final(cone_maps)@.len() == old(cone_maps)@.len() + 1,
        forall|i: int| 0 <= i < old(cone_maps)@.len() ==> #[trigger] final(cone_maps)@[i] == old(cone_maps)@[i],
        final(cone_maps)@[old(cone_maps)@.len() as int].tree_and_clique is None,
        final(cone_maps)@[old(cone_maps)@.len() as int].orig_index == (if old(cone_maps)@.len() == 0 { 0int } else { old(cone_maps)@[old(cone_maps)@.len() - 1].orig_index + 1 }),
        res.0 == row_ptr + cone.nvars_spec(), res.1 == overlap_ptr,
//@pre
    proof { assert(Aa_I@.len() == Aa_I.len() && ba_I@.len() == ba_I.len()); }
    let ghost rs = row_range.start as int;
    let ghost re = row_range.end as int;
//@loop 1
            invariant
                ba_I@.len() == old(ba_I)@.len(), ba_I@.len() >= b.nzind@.len(), offset == row_ptr - rs, rs == row_range.start, re == row_range.end, rs <= re, row_ptr + (re - rs) <= usize::MAX,
                rows_window(b.nzind@, 0, b.nzind@.len() as int, row_range_col.start as int, row_range_col.end as int, rs, re),
                forall|q: int| 0 <= q < ba_I@.len() ==> #[trigger] ba_I@[q] ==
                    (if row_range_col.start <= q < $var1 { shifted(b.nzind@[q] as int, rs, row_ptr as int) as usize } else { old(ba_I)@[q] }),
//@loop 2
        invariant
            n == A.n, colptr_ok(*A), rows_sorted(*A), Aa_I@.len() == old(Aa_I)@.len(), Aa_I@.len() >= A.rowval@.len(),
            offset == row_ptr - rs, rs == row_range.start, re == row_range.end, rs <= re, row_ptr + (re - rs) <= usize::MAX,
            forall|q: int, c: int| #[trigger] in_col(*A, q, c) && c < $var2 ==> Aa_I@[q] == (if rs <= A.rowval@[q] < re { shifted(A.rowval@[q] as int, rs, row_ptr as int) as usize } else { old(Aa_I)@[q] }),
            forall|q: int| A.colptr@[$var2 as int] <= q < Aa_I@.len() ==> #[trigger] Aa_I@[q] == old(Aa_I)@[q],
            forall|q: int| 0 <= q < A.colptr@[0] ==> #[trigger] Aa_I@[q] == old(Aa_I)@[q],
//@body_start 2
        let ghost gc = $var2 as int;
        let ghost a1 = Aa_I@;
        proof { assert(A.colptr@[gc] <= A.colptr@[gc + 1] <= A.colptr@[A.n as int]); }
//@loop 3
                invariant
                    colptr_ok(*A), Aa_I@.len() == old(Aa_I)@.len(), Aa_I@.len() >= A.rowval@.len(), gc == $var2, 0 <= gc < A.n,
                    A.colptr@[gc] <= A.colptr@[gc + 1] <= A.rowval@.len(),
                    offset == row_ptr - rs, rs == row_range.start, re == row_range.end, rs <= re, row_ptr + (re - rs) <= usize::MAX,
                    rows_window(A.rowval@, A.colptr@[gc] as int, A.colptr@[gc + 1] as int, row_range_col.start as int, row_range_col.end as int, rs, re),
                    forall|q: int| 0 <= q < Aa_I@.len() ==> #[trigger] Aa_I@[q] == (if row_range_col.start <= q < $var3 { shifted(A.rowval@[q] as int, rs, row_ptr as int) as usize } else { a1[q] }),
//@body_end 2
        proof {
            assert forall|q: int, c: int| #[trigger] in_col(*A, q, c) && c < gc + 1 implies Aa_I@[q] == (if rs <= A.rowval@[q] < re { shifted(A.rowval@[q] as int, rs, row_ptr as int) as usize } else { old(Aa_I)@[q] }) by {
                if c < gc { assert(A.colptr@[c + 1] <= A.colptr@[gc]); }
            }
        }
//@before "cones_new.push("
    proof {
        assert forall|k: int| 0 <= k < old(Aa_I)@.len() implies #[trigger] Aa_I@[k] ==
            (if k < A.rowval@.len() && rs <= A.rowval@[k] < re { shifted(A.rowval@[k] as int, rs, row_ptr as int) as usize } else { old(Aa_I)@[k] }) by {
            if k < A.rowval@.len() { let c = lemma_col_of(*A, k); assert(in_col(*A, k, c)); }
        }
    }
//@end

// ---- ChordalInfo: sizes, buffer size, dispatch between the compact and the standard form ----
//@struct file=src/solver/chordal/supernode_tree.rs name=SuperNodeTree keep=nblk,n_cliques,snode_post
//@struct file=src/solver/chordal/sparsity_pattern.rs name=SparsityPattern
//@struct file=src/solver/chordal/chordal_info.rs name=ChordalInfo
//@struct file=src/solver/implementations/default/variables.rs name=DefaultVariables rules=R2
//@struct file=src/solver/implementations/default/settings.rs name=DefaultSettings rules=R1f
// rule `itermax0` (ASSUMED: Iterator::max over usize with the fallback &0)
#[verifier::external_body]
pub fn usize_iter_max_or0(v: &Vec<usize>) -> (r: &usize)
    ensures forall|k: int| 0 <= k < v@.len() ==> #[trigger] v@[k] <= *r, v@.len() == 0 ==> *r == 0, v@.len() > 0 ==> exists|k: int| 0 <= k < v@.len() && v@[k] == *r,
{ v.iter().max().unwrap_or(&0) }
pub open spec fn zeros_seq(m: nat) -> Seq<F> { Seq::new(m, |i: int| f_zero()) }
impl DefaultVariables<F> {
    // ASSUMED (real body: three vec![T::zero(); _] and two ones; not extracted here)
    #[verifier::external_body] pub fn new(n: usize, m: usize) -> (r: Self) ensures r.x@.len() == n, r.s@ == zeros_seq(m as nat), r.z@ == zeros_seq(m as nat) { unimplemented!() }
}
pub type AugmentResult = (CscMatrix<F>, Vec<F>, CscMatrix<F>, Vec<F>, Vec<SupportedConeT<F>>);
impl ChordalInfo<F> {
    // ASSUMED stand-ins for the callees that are outside the verifier's reach (peekable iterators, closures, LAPACK).  What is assumed of them is
    // only which of the two bookkeeping fields they fill (by inspection: `self.cone_maps = Some(cone_maps)` in find_compact_A_b_and_cones,
    // `self.H = Some(H)` in find_standard_H_and_cones) and that the reversal routines keep the lengths and do not touch x
    pub uninterp spec fn dim_and_overlaps(&self) -> (usize, usize);
    // what the reversal of the compact (true) / standard (false) form makes of s and z, and what the completion makes of z: uninterpreted
    pub uninterp spec fn rev_s(&self, compact: bool, old_vars: DefaultVariables<F>, old_cones: Seq<SupportedConeT<F>>, s0: Seq<F>) -> Seq<F>;
    pub uninterp spec fn rev_z(&self, compact: bool, old_vars: DefaultVariables<F>, old_cones: Seq<SupportedConeT<F>>, z0: Seq<F>) -> Seq<F>;
    pub uninterp spec fn completed_z(&self, z: Seq<F>) -> Seq<F>;
    #[verifier::external_body] pub fn get_decomposed_dim_and_overlaps(&self) -> (r: (usize, usize)) ensures r == self.dim_and_overlaps() { unimplemented!() }
    #[verifier::external_body] pub fn decomp_augment_compact(&mut self, P: &CscMatrix<F>, q: &[F], A: &CscMatrix<F>, b: &[F]) -> (r: AugmentResult)
        ensures final(self).cone_maps is Some, final(self).H == old(self).H, final(self).init_dims == old(self).init_dims { unimplemented!() }
    #[verifier::external_body] pub fn decomp_augment_standard(&mut self, P: &CscMatrix<F>, q: &[F], A: &CscMatrix<F>, b: &[F]) -> (r: AugmentResult)
        ensures final(self).H is Some, final(self).cone_maps == old(self).cone_maps, final(self).init_dims == old(self).init_dims { unimplemented!() }
    #[verifier::external_body] pub fn decomp_reverse_compact(&self, new_vars: &mut DefaultVariables<F>, old_vars: &DefaultVariables<F>, old_cones: &[SupportedConeT<F>])
        requires self.cone_maps is Some,   // its first use: `self.cone_maps.as_ref().unwrap()`
        ensures final(new_vars).s@ == self.rev_s(true, *old_vars, old_cones@, old(new_vars).s@), final(new_vars).z@ == self.rev_z(true, *old_vars, old_cones@, old(new_vars).z@), final(new_vars).x@ == old(new_vars).x@, final(new_vars).s@.len() == old(new_vars).s@.len(), final(new_vars).z@.len() == old(new_vars).z@.len() { unimplemented!() }
    #[verifier::external_body] pub fn decomp_reverse_standard(&self, new_vars: &mut DefaultVariables<F>, old_vars: &DefaultVariables<F>, old_cones: &[SupportedConeT<F>])
        requires self.H is Some,           // its first statement: `self.H.as_ref().unwrap()`
        ensures final(new_vars).s@ == self.rev_s(false, *old_vars, old_cones@, old(new_vars).s@), final(new_vars).z@ == self.rev_z(false, *old_vars, old_cones@, old(new_vars).z@), final(new_vars).x@ == old(new_vars).x@, final(new_vars).s@.len() == old(new_vars).s@.len(), final(new_vars).z@.len() == old(new_vars).z@.len() { unimplemented!() }
    #[verifier::external_body] pub fn psd_completion(&self, variables: &mut DefaultVariables<F>)
        ensures final(variables).z@ == self.completed_z(old(variables).z@), final(variables).x@ == old(variables).x@, final(variables).s@ == old(variables).s@, final(variables).z@.len() == old(variables).z@.len() { unimplemented!() }

//@fn file=src/solver/chordal/decomp/augment_compact.rs in="impl<T> ChordalInfo<T>" name=find_A_dimension rules=R1 ret=res
//@contract
    requires A.n + self.dim_and_overlaps().1 <= usize::MAX,
    ensures
        // C18 (sizes of the decomposed problem): rows = total packed dimension of the blocks, one new column per overlapping entry
        res.0 == self.dim_and_overlaps().0, res.1 == A.n + self.dim_and_overlaps().1, res.2 == self.dim_and_overlaps().1,
//@end
//@fn file=src/solver/chordal/decomp/reverse_compact.rs in="impl<T> ChordalInfo<T>" name=largest_nblk rules=itermax0,R18 ret=res
//@contract
    requires
        // "should only be called after block sizes are populated" (SparsityPattern::new ends with calculate_block_dimensions): else the unwrap panics
        forall|i: int| 0 <= i < self.spatterns@.len() ==> (#[trigger] self.spatterns@[i]).sntree.nblk is Some,
    ensures
        // at least as large as every block of every pattern (it only sizes a buffer that is resized per clique anyway)
        forall|i: int, k: int| 0 <= i < self.spatterns@.len() && 0 <= k < self.spatterns@[i].sntree.nblk->0@.len() ==> #[trigger] self.spatterns@[i].sntree.nblk->0@[k] <= res,
//@iter 1
it
//@loop 1
        invariant
            it.seq().len() == self.spatterns@.len(), forall|i: int| 0 <= i < self.spatterns@.len() ==> *(#[trigger] it.seq()[i]) == self.spatterns@[i],
            forall|i: int| 0 <= i < self.spatterns@.len() ==> (#[trigger] self.spatterns@[i]).sntree.nblk is Some,
            forall|i: int, k: int| 0 <= i < it.index@ && 0 <= k < self.spatterns@[i].sntree.nblk->0@.len() ==> #[trigger] self.spatterns@[i].sntree.nblk->0@[k] <= max_block,
//@end

//@fn file=src/solver/chordal/decomp/mod.rs in="impl<T> ChordalInfo<T>" name=decomp_augment rules=R1 ret=res
//@contract
    ensures
        // C18 (dispatch): the setting alone selects the form; the compact form fills cone_maps and leaves H alone, the standard form the other way round
        settings.chordal_decomposition_compact ==> final(self).cone_maps is Some && final(self).H == old(self).H,
        !settings.chordal_decomposition_compact ==> final(self).H is Some && final(self).cone_maps == old(self).cone_maps,
        final(self).init_dims == old(self).init_dims,
//@end
//@fn file=src/solver/chordal/decomp/mod.rs in="impl<T> ChordalInfo<T>" name=decomp_reverse rules=R1,R6 ret=res
//@contract
    requires
        // the two assert_eq!: exactly one of H / cone_maps is present and it matches the setting.  decomp_augment (above) establishes this when
        // H and cone_maps start as None (ChordalInfo::new) and the SAME setting is used - see the unit header for how a user can break it
        settings.chordal_decomposition_compact == (self.H is None), settings.chordal_decomposition_compact == (self.cone_maps is Some),
        // `&old_vars.x[0..n]`: the decomposed problem has at least the n original variables (the compact form appends the overlap variables)
        old_vars.x@.len() >= self.init_dims.0,
    ensures
        // C18 (mapping a solution back returns vectors of the original size), x is the leading part of the internal x
        res.x@.len() == self.init_dims.0, res.s@.len() == self.init_dims.1, res.z@.len() == self.init_dims.1,
        res.x@ == old_vars.x@.subrange(0, self.init_dims.0 as int),
        // s and z: the reversal selected by the setting, applied to zero vectors of length m; z is completed exactly when complete_dual is set
        res.s@ == self.rev_s(settings.chordal_decomposition_compact, *old_vars, old_cones@, zeros_seq(self.init_dims.1 as nat)),
        res.z@ == ({ let zr = self.rev_z(settings.chordal_decomposition_compact, *old_vars, old_cones@, zeros_seq(self.init_dims.1 as nat));
                     if settings.chordal_decomposition_complete_dual { self.completed_z(zr) } else { zr } }),
//@end
}

} // verus!
fn main() {}
