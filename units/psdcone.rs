#![feature(allocator_api)]
#![allow(non_snake_case)]
// unit `psdcone` : everything of cones/psdtrianglecone.rs (feature `sdp`) - the positive semidefinite cone in scaled triangular (svec) form -
// over ASSUMED stand-ins for the BLAS / LAPACK engine objects (C07, C11, C13, C15 for the PSD cone: index arithmetic and orchestration).
// float model: float_opaque (every arithmetic operation an uninterpreted symbol) for all function contracts; F-real only in the three Level-2 lemmas.
//
// WHAT IS DECIDED HERE.  (a) the INDEX ARITHMETIC between packed svec positions and matrix coordinates (diagonal positions tri(k) + k, the fill order
// of skron, the packing of get_Hs) is proved, not assumed; (b) the ORCHESTRATION - which engine is called on which operand with which transposition
// flag, into which work space, in which order, and what happens when an engine fails - is stated as equations between VALUES (`GM`: dimensions +
// column-major data) over uninterpreted functions `chol_of`, `svd_*`, `eig_of`, `mm` (gemm), `syrk_of`, `syr2k_of`.  A swapped operand, an inverted flag,
// a wrong source matrix or a swallowed failure changes the term and fails the postcondition.  What is NOT decided: that these terms are the
// Nesterov-Todd scaling in the mathematical sense (W z = W^-T s = lambda, Hs = W'W) - that needs the linear algebra of Cholesky / SVD, see NOT COVERED.
//
// PROVED from the real text (extracted, never retyped; panic-freedom = every index / overflow / assert! obligation, plus the clause given):
//   PSDConeData::new, PSDTriangleCone::new   n, numel = triangular_number(n), R / Rinv / workmat1-3 n x n, Hs numel x numel, lambda / Lambdaisqrt of
//                       length n, workvec of length numel, everything zero (`wf`); needs tri(n) < 2^32 (beyond it `size.0 * size.1` of Hs overflows)
//   degree (= n), numel, is_symmetric (true), is_sparse_expandable (false), allows_primal_dual_scaling (true), Hs_is_diagonal (false)
//   rectify_equilibration   true, delta_i = (1 / e_i) * mean(e)  ("scalar equilibration", as for every non-separable cone in unit rectify)
//   margins             z empty: (max_value, 0); else Z = mat(z) in workmat1, eigvals(Z): alpha = minimum(eig_of(mat z)), beta = left fold of
//                       s + max(e_i, 0) over eig_of(mat z); z itself and the scaling untouched
//   scaled_unit_shift   alpha is added to exactly the positions tri(a) + a (= triangular_index(a)) of the packed triangle, i.e. to the diagonal
//                       entries (a, a); every off-diagonal position tri(b) + a, a < b, and everything beyond tri(n) keeps its value
//   unit_initialization s = z = svec(I): 0 + 1 on the diagonal positions, 0 elsewhere
//   set_identity_scaling  R = Rinv = Hs = I entry for entry (through the real Matrix::set_identity), lambda untouched
//   update_scaling      empty s: true, nothing changed.  Else S = mat(s), Z = mat(z) (workmat1, workmat2); chol1.factor(S), chol2.factor(Z);
//                       result == (chol_ok(mat s) && chol_ok(mat z)); on false R, Rinv, Hs, lambda, Lambdaisqrt are EXACTLY as before (no half-updated
//                       scaling); on true (nt_scaled): M = gemm(1, L2', L1, 0) [L1 = chol_of(mat s), L2 = chol_of(mat z)], SVD(M) succeeded (else the
//                       documented panic `expect("SVD error")` = divergence), lambda = svd_s(M), Lambdaisqrt_i = 1 / sqrt(lambda_i),
//                       R = gemm(1, L1, Vt', 0) with column b scaled by Lambdaisqrt_b, Rinv = gemm(1, U', L2', 0) with row a scaled by Lambdaisqrt_a,
//                       RRt = syrk(1, R, 0) on a zeroed workmat1, Hs upper triangle = skron(sym(RRt)), lower triangle of Hs untouched
//   skron               out[tri(j) + i, tri(l) + k] for i <= j, k <= l, row <= col:  A_ik A_jl + A_il A_jk  (i != j, k != l),  sqrt2 A_jl A_jk  (i == j, k != l),
//                       sqrt2 A_il A_jk  (i != j, k == l),  A_jl A_jl  (i == j, k == l); A read through its upper triangle; the `break` logic of the row
//                       counter (row = min(tri(j) + i, col + 1)); the lower triangle of `out` is never written
//   get_Hs              Hsblock[tri(b) + a] = Hs[a, b], a <= b < numel (through the real Symmetric::pack_triu)
//   mul_Wx_inner, mul_W (Rx = R), mul_Winv (Rx = Rinv)   X = mat(x), Y = mat(y); flag T: tmp = gemm(1, X, Rx', 0), Y = gemm(alpha, Rx, tmp, beta);
//                       flag N: tmp = gemm(1, Rx', X, 0), Y = gemm(alpha, tmp, Rx, beta); y = svec(Y); nothing beyond tri(n) written (is_mulW)
//   mul_Hs              work = mul_W(N, x), y = mul_W(T, work)   (alpha = 1, beta = 0)
//   affine_ds           lambda_a * lambda_a on the diagonal positions, 0 elsewhere
//   circ_op             X = 0, syr2k(mat y, mat z, 0.5, 0), x = svec of the symmetric view of X (is_circ); inv_circ_op: unreachable!() = never returns
//   lambda_inv_circ_op  X_ij = (2 * Z_ij) / (lambda_i + lambda_j) for every (i, j), x = svec(X) (is_linv)
//   combined_ds_shift   through the real SymmetricConeUtils::_combined_ds_shift_symmetric at C = PSDTriangleCone: step_z <- mul_W(N, step_z),
//                       step_s <- mul_Winv(T, step_s), shift = step_s o step_z with -sigma*mu added on the diagonal positions only
//   Delta_s_from_Delta_z_offset   through the real _Delta_s_from_Delta_z_offset_symmetric: work = lambda \ ds, out = mul_W(T, work)
//   step_length, step_length_psd_component   d = mul_W(N, dz) resp. mul_Winv(T, ds) into workvec; gamma = max_value for an empty d, else
//                       minimum(eig_of(Lambda^-1/2 mat(d) Lambda^-1/2)); result = min(-1 / gamma, alphamax) if gamma < 0 else alphamax
//   compute_barrier, logdet_barrier   0 - lb(z, dz) - lb(s, ds),  lb(x, dx) = logdet of chol_of(mat(1 * x + alpha * dx)) if that factorisation succeeds,
//                       +infinity otherwise (SEE OBSERVATION)
//   dense support, new here: Matrix::t, sym (debug_assert dropped), set_identity, Symmetric::pack_triu, ShapedMatrix::shape of Matrix / Adjoint /
//                       Symmetric (the flag that reaches BLAS), CholeskyEngine::new, CholeskyEngine::logdet (2 * left fold of ln L_ii);
//                       SECOND COPIES of unit dense_math / scalarmath with the same contracts (a Verus unit is one file): index_linear, data, data_mut,
//                       index, index_mut, col_slice_mut, size, nrows / ncols / is_square, Adjoint / Symmetric index + size, Matrix::new / zeros,
//                       lscale, rscale, lrscale, svec_to_mat, mat_to_svec, triangular_number, triangular_index
//   Level 2 (F-real):   lemma_unit_shift_margin (the postcondition of scaled_unit_shift + HYPOTHESIS eig(A + al I) = eig(A) + al  ==>  every eigenvalue of
//                       mat(z), hence the margin, rises by alpha), lemma_unit_init_margin (postcondition of unit_initialization + HYPOTHESIS eig(I) = 1
//                       ==> every eigenvalue of mat(s) is 1), lemma_affine_ds_real (mat(affine_ds) = diag(lambda_a^2))
// ASSUMED (hand-written stand-ins, bodies not verified):
//   * CholeskyEngine::factor(A): Ok <=> A.size == L.size && chol_ok(A); on Ok L == chol_of(A); A and L keep their shapes (contents of A unspecified
//     afterwards, contents of L unspecified on failure).  SVDEngine::new / factor(A): Ok <=> U.nrows == A.nrows && Vt.ncols == A.ncols && svd_ok(A); on Ok
//     s == svd_s(A), U == svd_U(A), Vt == svd_Vt(A); A destroyed.  EigEngine::new / eigvals(A): Ok <=> A square of order len(lambda) && eig_ok(A); on Ok
//     lambda == eig_of(A); A destroyed.  All of these are functions of the VALUE of A (dimensions + data) only.
//   * Matrix::mul(A, B, alpha, beta) [gemm]: requires the dimension assert!; self == mm(alpha, A.shape, A.data, B.shape, B.data, beta, C) with C = old self,
//     or the zero matrix when beta == 0 (BLAS: "C need not be set on input").  syrk(A, alpha, beta): self == syrk_of(alpha, A.shape, A.data, beta, old self),
//     lower triangle untouched.  syr2k(A, B, alpha, beta): self == syr2k_of(alpha, A, B, beta, old self), lower triangle untouched.  The real `mul`
//     returns `&Self`; the stand-in returns nothing (every caller discards the result).
//   * `expect(..)` on an engine result (rule R13e -> expect_or_panic, `ensures` only): the documented panic is modelled as divergence, so the code
//     after it is verified under "the engine reported success".  `unreachable_panic` (rule unreach) does not return.
//   * VectorMath (prelude/vecmath_assumed.rs: copy_from, set, recip, scale, mean, minimum, waxpby - proved in unit vecmath) and `sqrt` (declared here,
//     proved with this contract in unit vecmath_more); `<[T]>::fill`, AsRef / AsMut of Vec (std); num_traits `ln`, `SQRT_2` (symbols f_ln, f_sqrt2).
//   * CoreSettings stand-in (never read).  F-real axioms (prelude/float_real_axioms.rs) in the Level-2 lemmas only; their eigenvalue facts are explicit
//     hypotheses (`eig_shift_hyp`, `eig_ident_hyp`), not axioms.
// PRECONDITIONS and the call sites: every vector argument has numel() entries (CompositeCone hands each cone its own slices: unit composite); the
//   functions that only need "at least tri(n)" say so.  `wf` (shapes of all members) is established by `new` and preserved by every method.
// DROPPED / NOT COVERED:
//   * the engine bodies (blas/*.rs: dimension checks, triangle copy, workspace queries, LAPACK calls) - ASSUMED above; CholeskyEngine::solve,
//     SVDEngine::solve, resize (not used by the cone);
//   * `debug_assert!(self.is_triu())` in Matrix::sym (release semantics; update_scaling / circ_op zero the work matrix first, which the contracts record);
//   * C13 in the mathematical sense for the PSD cone: W z = W^-T s = lambda, (W'W) z = s, mul_W / mul_Winv mutually inverse, get_Hs block == mul_Hs
//     operator, lambda o lambda = affine_ds as Jordan product, skron(A) = the matrix of X -> A X A on svec - all need the algebra of Cholesky / SVD /
//     gemm on real matrices (sums over k), which the uninterpreted engine symbols do not carry.  What IS decided is that the code computes the documented
//     expressions (code comments) operand for operand.
// OBSERVATION (not a finding: not replayable here without BLAS / LAPACK): logdet_barrier returns +infinity when the Cholesky factorisation of the shifted
//   point fails and compute_barrier SUBTRACTS it, so the barrier of a point outside the PSD cone is -infinity - "best possible" for
//   `backtrack_step_to_barrier` (accepts when barrier < 1) - whereas the nonnegative and second-order cones yield +infinity there (logsafe = -inf,
//   subtracted).  Reachable only for problems mixing PSD with nonsymmetric cones, and only if rounding pushes the already step-length-limited point
//   out of the cone.  The contract states what the code does (lb_val).
// MUTATION ROUND (scratch copy, one wrong edit of the real text at a time, 94 edits): 90 realistic ones (diagonal position k instead of
//   triangular_index(k), alpha on every entry, off-diagonal ones in unit_initialization, largest eigenvalue in margins / step length, each of the
//   Cholesky / SVD / eigenvalue failures ignored or swallowed, R written before the failure check, every operand / flag / scaling side of the six
//   engine calls of update_scaling, inverted flag / swapped branches / swapped alpha-beta in mul_Wx_inner, wrong R in mul_W / step_length, sign / min-max /
//   minus of the step-length comparison, pack_triu order, five skron edits incl. sqrt2 on the wrong entries and the break test, barrier signs, ...)
//   each fail a named obligation of the edited function.  Survivors: the 3 of the 4 deliberately EQUIVALENT edits that only move scratch space
//   (workmat3 as SVD scratch, workmat2 as eigenvalue scratch, the unused load of X in lambda_inv_circ_op) - as they should.  Strict alarms: dropping
//   the zeroing of the work matrix before syrk / syr2k fails although it is harmless in release builds (it is what `debug_assert!(is_triu)` in
//   `sym()` checks); gamma = 0 instead of max_value for an empty direction fails although the result is alphamax either way (the contract fixes the
//   sentinel; comparisons are uninterpreted).
// Stability: 5 Z3 seeds, all green; heaviest function skron ~4.3 M rlimit units (< 3 % of --rlimit 50), whole unit ~22 s.
use vstd::prelude::*;
verus! {
global size_of usize == 8;
//@features sdp
//@include prelude/float_opaque.rs
//@include prelude/float_real_axioms.rs
//@include prelude/vecmath_assumed.rs
//@include prelude/std_assumed.rs

// ASSUMED std: a Vec viewed through AsRef<[T]> / AsMut<[T]> is its own slice
pub assume_specification<T, A: core::alloc::Allocator> [<Vec<T, A> as AsRef<[T]>>::as_ref] (v: &Vec<T, A>) -> (r: &[T]) ensures r@ == v@;
pub assume_specification<T, A: core::alloc::Allocator> [<Vec<T, A> as AsMut<[T]>>::as_mut] (v: &mut Vec<T, A>) -> (r: &mut [T]) ensures r@ == old(v)@, final(v)@ == final(r)@;
// ASSUMED scalar helpers of num_traits the prelude does not carry
pub uninterp spec fn f_ln(a: F) -> F;
pub uninterp spec fn f_sqrt2() -> F;
impl F {
    #[verifier::external_body] pub fn ln(self) -> (r: F) ensures r == f_ln(self) { unimplemented!() }
    #[verifier::external_body] pub fn SQRT_2() -> (r: F) ensures r == f_sqrt2() { unimplemented!() }
}
// ASSUMED: VectorMath::sqrt (not in prelude/vecmath_contract.rs; proved with this contract in unit vecmath_more)
pub trait VectorMathSqrt: VectorMath {
    fn sqrt(&mut self) -> (r: &mut Self)
        ensures r.vw().len() == old(self).vw().len(),
            forall|i: int| 0 <= i < old(self).vw().len() ==> #[trigger] r.vw()[i] == f_sqrt(old(self).vw()[i]),
            final(self).vw() == final(r).vw();
}
impl VectorMathSqrt for [F] { #[verifier::external_body] fn sqrt(&mut self) -> (r: &mut Self) { unimplemented!() } }
// rule R13e: `.expect(msg)` - the documented panic is divergence (ensures only)
pub trait ExpectOrPanic<T> { fn expect_or_panic(self, msg: &str) -> T; }
impl<T, E> ExpectOrPanic<T> for Result<T, E> {
    #[verifier::external_body]
    fn expect_or_panic(self, msg: &str) -> (r: T) ensures self is Ok, r == self->Ok_0 { unimplemented!() }
}
// rule unreach: `unreachable!()` does not return
#[verifier::external_body] pub fn unreachable_panic<T>() -> (r: T) ensures false { panic!() }

//@enum file=src/solver/core/solver.rs name=ScalingStrategy derive="PartialEq, Eq, Clone, Copy, Structural"
//@enum file=src/solver/core/cones/mod.rs name=PrimalOrDualCone rules=R12 derive="PartialEq, Eq, Clone, Copy, Structural"
//@enum file=src/algebra/matrix_types.rs name=MatrixShape rules=R12 derive="PartialEq, Eq, Clone, Copy, Structural"

// ================================================================== A. the dense matrix type: SECOND COPIES of unit dense_math (same real text, same
// contracts, re-verified here because a Verus unit is one file); new here: shape(), t(), sym(), set_identity, pack_triu
//@struct file=src/algebra/dense/types.rs name=DenseStorageMatrix

//@trait file=src/algebra/matrix_traits.rs name=ShapedMatrix header="pub trait ShapedMatrix" keep=shape,size,nrows,ncols,is_square
//@extra
    spec fn sz(&self) -> (usize, usize);
    spec fn shp(&self) -> MatrixShape;
//@sig shape
ret=r
    ensures r == self.shp()
//@sig size
ret=r
    ensures r == self.sz()
//@sig nrows
ret=r
    ensures r == self.sz().0
//@sig ncols
ret=r
    ensures r == self.sz().1
//@sig is_square
ret=r
    ensures r == (self.sz().0 == self.sz().1)
//@end

// ghost value of a dense matrix: dimensions and column-major data
pub ghost struct GM { pub r: int, pub c: int, pub d: Seq<F> }
impl GM {
    pub open spec fn e(self, i: int, j: int) -> F { self.d[i + self.r * j] }
}

// stand-in for `trait DenseMatrix<T>: ShapedMatrix + Index<(usize, usize), Output = T>`
pub trait DenseMatrix<T>: ShapedMatrix {
    spec fn dm_wf(&self) -> bool;
    spec fn at(&self, r: int, c: int) -> T;
    // what `data()` hands to BLAS (the storage of the source matrix) together with the source's dimensions
    spec fn srcv(&self) -> GM;
    fn index(&self, idx: (usize, usize)) -> (r: &T)
        requires self.dm_wf(), idx.0 < self.sz().0, idx.1 < self.sz().1,
        ensures *r == self.at(idx.0 as int, idx.1 as int);
}

pub proof fn lemma_lin(m: int, n: int, r: int, c: int)
    requires 0 <= r < m, 0 <= c < n,
    ensures 0 <= m * c, m * c + m <= m * n, 0 <= r + m * c < m * n,
{
    assert(m * c + m <= m * n) by(nonlinear_arith) requires c + 1 <= n, m >= 0;
    assert(m * c >= 0) by(nonlinear_arith) requires c >= 0, m >= 0;
}
pub proof fn lemma_colb(m: int, n: int, c: int)
    requires 0 <= m, 0 <= c < n,
    ensures 0 <= m * c, c * m == m * c, (c + 1) * m == m * c + m, m * c + m <= m * n,
{
    assert(m * c + m <= m * n) by(nonlinear_arith) requires c + 1 <= n, m >= 0;
    assert(m * c >= 0) by(nonlinear_arith) requires c >= 0, m >= 0;
    assert(c * m == m * c) by(nonlinear_arith);
    assert((c + 1) * m == m * c + m) by(nonlinear_arith);
}
pub proof fn lemma_lin_sep(m: int, a: int, b: int, c: int)
    requires 0 <= a < m, 0 <= b, 0 <= c, b != c,
    ensures a + m * b < m * c || a + m * b >= m * c + m,
{
    if b < c { assert(m * c >= m * b + m) by(nonlinear_arith) requires c >= b + 1, m >= 0; }
    if c < b { assert(m * b >= m * c + m) by(nonlinear_arith) requires b >= c + 1, m >= 0; }
}
pub proof fn lemma_lin_inj(m: int, r1: int, c1: int, r2: int, c2: int)
    requires 0 <= r1 < m, 0 <= r2 < m, 0 <= c1, 0 <= c2, r1 + m * c1 == r2 + m * c2,
    ensures r1 == r2, c1 == c2,
{
    if c1 < c2 { assert(m * c2 >= m * c1 + m) by(nonlinear_arith) requires c2 >= c1 + 1, m >= 0; }
    if c2 < c1 { assert(m * c1 >= m * c2 + m) by(nonlinear_arith) requires c1 >= c2 + 1, m >= 0; }
}

pub type MatrixF = DenseStorageMatrix<Vec<F>, F>;
pub open spec fn gm(M: MatrixF) -> GM { GM { r: M.size.0 as int, c: M.size.1 as int, d: M.data@ } }
impl DenseStorageMatrix<Vec<F>, F> {
    pub open spec fn wf(&self) -> bool { self.size.0 * self.size.1 == self.data@.len() }
    pub open spec fn e(&self, r: int, c: int) -> F { self.data@[r + self.size.0 * c] }
    pub open spec fn inb(&self, r: int, c: int) -> bool { 0 <= r < self.size.0 && 0 <= c < self.size.1 }
    pub open spec fn sq(&self, n: int) -> bool { self.wf() && self.size.0 == n && self.size.1 == n }
//@fn file=src/algebra/dense/types.rs in="DenseMatrix<T> for DenseStorageMatrix<S, T>" name=index_linear rules=R1 ret=r
//@contract
    requires self.wf(), idx.0 < self.size.0, idx.1 < self.size.1,
    ensures r == idx.0 + self.size.0 * idx.1, r < self.data@.len(),
//@pre
    proof { lemma_lin(self.size.0 as int, self.size.1 as int, idx.0 as int, idx.1 as int); assert(self.data@.len() == self.data.len()); }
//@end
//@fn file=src/algebra/dense/types.rs in="DenseMatrix<T> for DenseStorageMatrix<S, T>" name=data rules=R1 ret=r
//@contract
    ensures r@ == self.data@,
//@end
//@fn file=src/algebra/dense/types.rs in="DenseMatrixMut<T> for DenseStorageMatrix<S, T>" name=data_mut rules=R1 ret=r
//@contract
    ensures r@ == old(self).data@, final(self).data@ == final(r)@, final(self).size == old(self).size,
//@end
//@fn file=src/algebra/dense/types.rs in="IndexMut<(usize, usize)> for DenseStorageMatrix<S, T>" name=index_mut rules=R1,selfout ret=r
//@contract
    requires old(self).wf(), idx.0 < old(self).size.0, idx.1 < old(self).size.1,
    ensures *r == old(self).e(idx.0 as int, idx.1 as int),
        final(self).size == old(self).size, final(self).wf(),
        final(self).e(idx.0 as int, idx.1 as int) == *final(r),
        forall|a: int, b: int| old(self).inb(a, b) && !(a == idx.0 && b == idx.1) ==> #[trigger] final(self).e(a, b) == old(self).e(a, b),
//@pre
    proof {
        let m = self.size.0 as int;
        assert forall|a: int, b: int| self.inb(a, b) implies 0 <= a + m * b < self.data@.len() && (!(a == idx.0 && b == idx.1) ==> a + m * b != idx.0 + m * idx.1) by {
            lemma_lin(m, self.size.1 as int, a, b);
            if a + m * b == idx.0 + m * idx.1 { lemma_lin_inj(m, a, b, idx.0 as int, idx.1 as int); }
        }
    }
//@end
//@fn file=src/algebra/dense/types.rs in="impl<S, T> DenseStorageMatrix<S, T>" name=col_slice_mut rules=R1 ret=r
//@contract
    requires old(self).wf(), col < old(self).size.1,
    ensures r@.len() == old(self).size.0, forall|i: int| 0 <= i < old(self).size.0 ==> #[trigger] r@[i] == old(self).e(i, col as int),
        final(self).size == old(self).size, final(self).wf(),
        final(r)@.len() == r@.len() ==> forall|i: int| 0 <= i < old(self).size.0 ==> #[trigger] final(self).e(i, col as int) == final(r)@[i],
        forall|a: int, b: int| old(self).inb(a, b) && b != col ==> #[trigger] final(self).e(a, b) == old(self).e(a, b),
//@pre
    proof {
        let m0 = self.size.0 as int;
        lemma_colb(m0, self.size.1 as int, col as int); assert(self.data@.len() == self.data.len());
        assert forall|a: int, b: int| self.inb(a, b) && b != col implies 0 <= a + m0 * b < self.data@.len() && (a + m0 * b < m0 * col || a + m0 * b >= m0 * col + m0) by {
            lemma_lin(m0, self.size.1 as int, a, b); lemma_lin_sep(m0, a, b, col as int);
        }
    }
//@end
}
impl ShapedMatrix for DenseStorageMatrix<Vec<F>, F> {
    open spec fn sz(&self) -> (usize, usize) { self.size }
    open spec fn shp(&self) -> MatrixShape { MatrixShape::N }
//@fn file=src/algebra/dense/types.rs in="ShapedMatrix for DenseStorageMatrix<S, T>" name=size
//@end
//@fn file=src/algebra/dense/types.rs in="ShapedMatrix for DenseStorageMatrix<S, T>" name=shape
//@end
}
impl DenseMatrix<F> for DenseStorageMatrix<Vec<F>, F> {
    open spec fn dm_wf(&self) -> bool { self.wf() }
    open spec fn at(&self, r: int, c: int) -> F { self.e(r, c) }
    open spec fn srcv(&self) -> GM { gm(*self) }
//@fn file=src/algebra/dense/types.rs in="Index<(usize, usize)> for DenseStorageMatrix<S, T>" name=index rules=R1
//@end
}

// ------------------------------------------------------------------ scalings (second copies)
impl DenseStorageMatrix<Vec<F>, F> {
//@fn file=src/algebra/dense/matrix_math.rs in="MatrixMathMut<T> for Matrix<T>" name=lscale rules=R1
//@contract
    requires old(self).wf(),
    ensures final(self).size == old(self).size, final(self).wf(),
        // M <- diag(l) M entry for entry; rows beyond l.len() are left alone (hadamard zips)
        forall|a: int, b: int| old(self).inb(a, b) ==> #[trigger] final(self).e(a, b) == (if a < l@.len() { f_mul(old(self).e(a, b), l@[a]) } else { old(self).e(a, b) }),
//@loop 1
        invariant
            self.size == old(self).size, self.wf(),
            forall|a: int, b: int| old(self).inb(a, b) && b < $var1 ==> #[trigger] self.e(a, b) == (if a < l@.len() { f_mul(old(self).e(a, b), l@[a]) } else { old(self).e(a, b) }),
            forall|a: int, b: int| old(self).inb(a, b) && b >= $var1 ==> #[trigger] self.e(a, b) == old(self).e(a, b),
//@end
//@fn file=src/algebra/dense/matrix_math.rs in="MatrixMathMut<T> for Matrix<T>" name=rscale rules=R1,R3 params=rv
//@contract
    requires old(self).wf(),
        // col_slice_mut asserts col < ncols: a longer `r` panics
        rv@.len() <= old(self).size.1,
    ensures final(self).size == old(self).size, final(self).wf(),
        // M <- M diag(r) entry for entry; columns beyond r.len() are left alone
        forall|a: int, b: int| old(self).inb(a, b) ==> #[trigger] final(self).e(a, b) == (if b < rv@.len() { f_mul(old(self).e(a, b), rv@[b]) } else { old(self).e(a, b) }),
//@iter 1
it
//@loop 1
        invariant
            self.size == old(self).size, self.wf(), rv@.len() <= self.size.1, col_ctr == it.index@,
            it.seq().len() == rv@.len(), forall|k: int| 0 <= k < rv@.len() ==> *(#[trigger] it.seq()[k]) == rv@[k],
            forall|a: int, b: int| old(self).inb(a, b) && b < it.index@ ==> #[trigger] self.e(a, b) == f_mul(old(self).e(a, b), rv@[b]),
            forall|a: int, b: int| old(self).inb(a, b) && b >= it.index@ ==> #[trigger] self.e(a, b) == old(self).e(a, b),
//@end
//@fn file=src/algebra/dense/matrix_math.rs in="MatrixMathMut<T> for Matrix<T>" name=lrscale rules=R1,tupidx params=l,rv
//@contract
    requires old(self).wf(), l@.len() >= old(self).size.0, rv@.len() >= old(self).size.1,
    ensures final(self).size == old(self).size, final(self).wf(),
        // M <- diag(l) M diag(r) entry for entry
        forall|a: int, b: int| old(self).inb(a, b) ==> #[trigger] final(self).e(a, b) == f_mul(old(self).e(a, b), f_mul(l@[a], rv@[b])),
//@iter 1
it1
//@loop 1
        invariant
            it1.iter.end == self.size.0, self.size == old(self).size, self.wf(), l@.len() >= self.size.0, rv@.len() >= self.size.1,
            forall|a: int, b: int| old(self).inb(a, b) && a < $var1 ==> #[trigger] self.e(a, b) == f_mul(old(self).e(a, b), f_mul(l@[a], rv@[b])),
            forall|a: int, b: int| old(self).inb(a, b) && a >= $var1 ==> #[trigger] self.e(a, b) == old(self).e(a, b),
//@iter 2
it2
//@loop 2
            invariant
                it2.iter.end == self.size.1, self.size == old(self).size, self.wf(), l@.len() >= self.size.0, rv@.len() >= self.size.1, $var1 < self.size.0,
                forall|a: int, b: int| old(self).inb(a, b) && (a < $var1 || (a == $var1 && b < $var2)) ==> #[trigger] self.e(a, b) == f_mul(old(self).e(a, b), f_mul(l@[a], rv@[b])),
                forall|a: int, b: int| old(self).inb(a, b) && !(a < $var1 || (a == $var1 && b < $var2)) ==> #[trigger] self.e(a, b) == old(self).e(a, b),
//@end
}

// ------------------------------------------------------------------ packed-triangle index arithmetic (second copies of unit scalarmath) and svec <-> matrix
pub open spec fn imax(a: int, b: int) -> int { if a >= b { a } else { b } }
pub open spec fn imin(a: int, b: int) -> int { if a <= b { a } else { b } }
pub open spec fn tri(k: int) -> int { k * (k + 1) / 2 }
pub proof fn lemma_shr1(x: usize) ensures x >> 1 == x / 2 { assert(x >> 1 == x / 2) by (bit_vector); }
pub proof fn lemma_consec_even(k: int) requires k >= 0 ensures k * (k + 1) % 2 == 0 decreases k
{
    if k > 0 {
        lemma_consec_even(k - 1);
        assert(k * (k + 1) == (k - 1) * k + 2 * k) by (nonlinear_arith);
    } else {
        assert(k * (k + 1) == 0) by (nonlinear_arith) requires k == 0;
    }
}
pub proof fn lemma_tri_step(k: int) requires k >= 0 ensures tri(k + 1) == tri(k) + k + 1, tri(k) >= 0
{
    assert(k * (k + 1) >= 0) by (nonlinear_arith) requires k >= 0;
    assert((k + 1) * (k + 2) == k * (k + 1) + 2 * (k + 1)) by (nonlinear_arith);
    lemma_consec_even(k);
}
pub proof fn lemma_tri_mono(a: int, b: int) requires 0 <= a <= b ensures tri(a) <= tri(b) decreases b - a
{
    if a < b { lemma_tri_step(b - 1); lemma_tri_mono(a, b - 1); }
}
// the packed position of (a, b), a <= b < n, lies inside the packed triangle of order n, below the positions of every later column
pub proof fn lemma_tri_pos(a: int, b: int, n: int) requires 0 <= a <= b < n ensures 0 <= tri(b) <= tri(b) + a < tri(b + 1) <= tri(n), tri(b + 1) == tri(b) + b + 1
{
    lemma_tri_step(b); lemma_tri_mono(b + 1, n);
}
// uniqueness of the (row, col) decomposition of a packed index
pub proof fn lemma_tri_unique(c1: int, r1: int, c2: int, r2: int)
    requires 0 <= r1 <= c1, 0 <= r2 <= c2, tri(c1) + r1 == tri(c2) + r2,
    ensures c1 == c2, r1 == r2,
{
    if c1 < c2 { lemma_tri_step(c1); lemma_tri_mono(c1 + 1, c2); }
    if c2 < c1 { lemma_tri_step(c2); lemma_tri_mono(c2 + 1, c1); }
}
// the order bound every PSD cone object satisfies (its Hs block has tri(n)^2 entries): consequences used for overflow checks
pub proof fn lemma_tri_small(n: int) requires n >= 0, tri(n) < 0x1_0000_0000 ensures n < 92682, n * n < 0x2_0000_0000, tri(n) * tri(n) < 0x1_0000_0000_0000_0000, tri(n) >= n
{
    if n >= 92682 { lemma_tri_mono(92682, n); assert(tri(92682) == 4295022903) by(compute); }
    assert(n * n < 0x2_0000_0000) by(nonlinear_arith) requires 0 <= n < 92682;
    let t = tri(n);
    lemma_tri_step(n);
    assert(t * t < 0x1_0000_0000_0000_0000) by(nonlinear_arith) requires 0 <= t < 0x1_0000_0000;
    assert(n * (n + 1) >= 2 * n) by(nonlinear_arith) requires n >= 0;
}
//@fn file=src/algebra/scalarmath.rs name=triangular_number ret=r
//@contract
    requires k < 0x1_0000_0000,
    ensures r == tri(k as int),
//@pre
    proof {
        assert(k * (k + 1) <= 0xffff_ffff * (k + 1)) by (nonlinear_arith) requires 0 <= k <= 0xffff_ffff;
        assert(k * (k + 1) >= 0) by (nonlinear_arith) requires 0 <= k;
        lemma_shr1((k * (k + 1)) as usize);
    }
//@end
//@fn file=src/algebra/scalarmath.rs name=triangular_index ret=r
//@contract
    requires k < 0x8000_0000,
    ensures r == tri(k as int + 1) - 1, r == tri(k as int) + k,
//@pre
    proof {
        assert(k * (k + 3) <= 0x7fff_ffff * (k + 3)) by (nonlinear_arith) requires 0 <= k <= 0x7fff_ffff;
        assert(k * (k + 3) >= 0) by (nonlinear_arith) requires 0 <= k;
        lemma_shr1((k * (k + 3)) as usize);
        lemma_tri_step(k as int);
        assert((k + 1) * (k + 2) == k * (k + 3) + 2) by (nonlinear_arith);
        lemma_consec_even(k as int);
    }
//@end

// packed column-major index of the entry (a, b) of a symmetric matrix stored by its upper triangle
pub open spec fn packed(a: int, b: int) -> int { tri(imax(a, b)) + imin(a, b) }
// entry (a, b) of the matrix that svec_to_mat builds from x: diagonal entries as they are, off-diagonal ones times 1/sqrt(2)
pub open spec fn sv_val(x: Seq<F>, a: int, b: int) -> F { if a == b { x[packed(a, b)] } else { f_mul(x[packed(a, b)], f_frac_1_sqrt_2()) } }
// entry tri(b) + a, a <= b, of the vector that mat_to_svec builds from M: the diagonal as it is, (upper + lower) * 1/sqrt(2) otherwise
pub open spec fn ms_val<MATM: DenseMatrix<F>>(M: MATM, a: int, b: int) -> F { if a == b { M.at(a, b) } else { f_mul(f_add(M.at(a, b), M.at(b, a)), f_frac_1_sqrt_2()) } }
// names the (a, b) entry (a trigger)
pub open spec fn tslot(a: int, b: int) -> bool { true }
pub open spec fn sv_done(a: int, b: int, c: int, r: int) -> bool { imax(a, b) < c || (imax(a, b) == c && imin(a, b) < r) }
pub type VecF = Vec<F>;

//@fn file=src/algebra/dense/matrix_math.rs name=svec_to_mat rules=R1,tupidx,R20,tparam:S>VecF params=Mm,x
//@contract
    requires old(Mm).wf(),
        old(Mm).size.0 == old(Mm).size.1, x@.len() >= tri(old(Mm).size.1 as int),
    ensures final(Mm).size == old(Mm).size, final(Mm).wf(),
        forall|a: int, b: int| old(Mm).inb(a, b) ==> #[trigger] final(Mm).e(a, b) == sv_val(x@, a, b),
//@pre
    proof { lemma_tri_step(0); assert(tri(0) == 0); assert(x@.len() == x.len()); }
//@iter 1
it1
//@loop 1
        invariant
            it1.iter.end == Mm.size.1, Mm.size == old(Mm).size, Mm.wf(), Mm.size.0 == Mm.size.1, x@.len() >= tri(Mm.size.1 as int), x@.len() <= usize::MAX,
            idx == tri($var1 as int),
            forall|a: int, b: int| old(Mm).inb(a, b) && sv_done(a, b, $var1 as int, 0) ==> #[trigger] Mm.e(a, b) == sv_val(x@, a, b),
//@body_start 1
        proof { lemma_tri_step($var1 as int); lemma_tri_mono($var1 + 1, Mm.size.1 as int); }
//@loop 2
            invariant
                Mm.size == old(Mm).size, Mm.wf(), Mm.size.0 == Mm.size.1, x@.len() >= tri(Mm.size.1 as int), x@.len() <= usize::MAX, $var1 < Mm.size.1,
                tri($var1 + 1) == tri($var1 as int) + $var1 + 1, tri($var1 + 1) <= tri(Mm.size.1 as int),
                idx == tri($var1 as int) + $var2,
                forall|a: int, b: int| old(Mm).inb(a, b) && sv_done(a, b, $var1 as int, $var2 as int) ==> #[trigger] Mm.e(a, b) == sv_val(x@, a, b),
//@body_start 2
            proof { assert(old(Mm).inb($var2 as int, $var1 as int) && old(Mm).inb($var1 as int, $var2 as int)); }
//@end

//@fn file=src/algebra/dense/matrix_math.rs name=mat_to_svec rules=R1,tupidx,R20 params=x,Mm
//@contract
    requires Mm.dm_wf(),
        Mm.sz().0 >= Mm.sz().1, old(x)@.len() >= tri(Mm.sz().1 as int),
    ensures final(x)@.len() == old(x)@.len(),
        forall|a: int, b: int| #[trigger] tslot(a, b) && 0 <= a <= b < Mm.sz().1 ==> final(x)@[tri(b) + a] == ms_val(*Mm, a, b),
        forall|k: int| tri(Mm.sz().1 as int) <= k < old(x)@.len() ==> #[trigger] final(x)@[k] == old(x)@[k],
//@pre
    proof { lemma_tri_step(0); assert(tri(0) == 0); assert(x@.len() == x.len()); }
    let ghost n = Mm.sz().1 as int;
//@loop 1
        invariant
            Mm.dm_wf(), Mm.sz().0 >= Mm.sz().1, n == Mm.sz().1, x@.len() == old(x)@.len(), x@.len() >= tri(n), x@.len() <= usize::MAX,
            idx == tri($var1 as int),
            forall|a: int, b: int| #[trigger] tslot(a, b) && 0 <= a <= b < $var1 ==> x@[tri(b) + a] == ms_val(*Mm, a, b),
            forall|k: int| tri($var1 as int) <= k < x@.len() ==> #[trigger] x@[k] == old(x)@[k],
//@body_start 1
        proof { lemma_tri_step($var1 as int); lemma_tri_mono($var1 + 1, n); }
        let ghost gc = $var1 as int;
//@loop 2
            invariant
                Mm.dm_wf(), Mm.sz().0 >= Mm.sz().1, n == Mm.sz().1, x@.len() == old(x)@.len(), x@.len() >= tri(n), x@.len() <= usize::MAX, gc == $var1, gc < n,
                tri(gc + 1) == tri(gc) + gc + 1, tri(gc + 1) <= tri(n), tri(gc) >= 0,
                idx == tri(gc) + $var2,
                forall|a: int, b: int| #[trigger] tslot(a, b) && 0 <= a <= b < gc ==> x@[tri(b) + a] == ms_val(*Mm, a, b),
                forall|a: int| 0 <= a < $var2 ==> #[trigger] x@[tri(gc) + a] == ms_val(*Mm, a, gc),
                forall|k: int| tri(gc) + $var2 <= k < x@.len() ==> #[trigger] x@[k] == old(x)@[k],
//@body_start 2
            let ghost x1 = x@;
//@body_end 2
            proof {
                assert forall|a: int, b: int| #[trigger] tslot(a, b) && 0 <= a <= b < gc implies x@[tri(b) + a] == ms_val(*Mm, a, b) by {
                    lemma_tri_step(b); lemma_tri_mono(b + 1, gc);
                    assert(x@[tri(b) + a] == x1[tri(b) + a]);
                }
                assert forall|a: int| 0 <= a < $var2 + 1 implies #[trigger] x@[tri(gc) + a] == ms_val(*Mm, a, gc) by {
                    if a < $var2 { assert(x@[tri(gc) + a] == x1[tri(gc) + a]); }
                }
            }
//@body_end 1
        proof {
            assert forall|a: int, b: int| #[trigger] tslot(a, b) && 0 <= a <= b < gc + 1 implies x@[tri(b) + a] == ms_val(*Mm, a, b) by {
                if b == gc { assert(x@[tri(gc) + a] == ms_val(*Mm, a, gc)); }
            }
        }
//@end

// ------------------------------------------------------------------ the read-only views Adjoint and Symmetric (second copies) + t(), sym()
//@struct file=src/algebra/matrix_types.rs name=Adjoint
//@struct file=src/algebra/matrix_types.rs name=Symmetric
impl<'a> Adjoint<'a, MatrixF> {
//@fn file=src/algebra/dense/types.rs in="DenseMatrix<T> for Adjoint<'_, DenseStorageMatrix<S, T>>" name=index_linear rules=R1 ret=r
//@contract
    requires self.src.wf(), idx.0 < self.src.size.1, idx.1 < self.src.size.0,
    ensures r == idx.1 + self.src.size.0 * idx.0, r < self.src.data@.len(),
//@end
//@fn file=src/algebra/dense/types.rs in="DenseMatrix<T> for Adjoint<'_, DenseStorageMatrix<S, T>>" name=data rules=R1 ret=r
//@contract
    ensures r@ == self.src.data@,
//@end
}
impl<'a> ShapedMatrix for Adjoint<'a, MatrixF> {
    open spec fn sz(&self) -> (usize, usize) { (self.src.size.1, self.src.size.0) }
    open spec fn shp(&self) -> MatrixShape { MatrixShape::T }
//@fn file=src/algebra/matrix_types.rs in="ShapedMatrix for Adjoint<'_, M>" name=size
//@end
//@fn file=src/algebra/matrix_types.rs in="ShapedMatrix for Adjoint<'_, M>" name=shape
//@end
}
impl<'a> DenseMatrix<F> for Adjoint<'a, MatrixF> {
    open spec fn dm_wf(&self) -> bool { self.src.wf() }
    open spec fn at(&self, r: int, c: int) -> F { self.src.e(c, r) }
    open spec fn srcv(&self) -> GM { gm(*self.src) }
//@fn file=src/algebra/dense/types.rs in="Index<(usize, usize)> for Adjoint<'_, DenseStorageMatrix<S, T>>" name=index rules=R1
//@end
}
impl<'a> Symmetric<'a, MatrixF> {
//@fn file=src/algebra/dense/types.rs in="DenseMatrix<T> for Symmetric<'_, DenseStorageMatrix<S, T>>" name=index_linear rules=R1 ret=r
//@contract
    requires self.src.wf(), self.src.size.0 == self.src.size.1, idx.0 < self.src.size.0, idx.1 < self.src.size.0,
    ensures r == imin(idx.0 as int, idx.1 as int) + self.src.size.0 * imax(idx.0 as int, idx.1 as int), r < self.src.data@.len(),
//@end
//@fn file=src/algebra/dense/types.rs in="DenseMatrix<T> for Symmetric<'_, DenseStorageMatrix<S, T>>" name=data rules=R1 ret=r
//@contract
    ensures r@ == self.src.data@,
//@end
}
impl<'a> ShapedMatrix for Symmetric<'a, MatrixF> {
    open spec fn sz(&self) -> (usize, usize) { (self.src.size.1, self.src.size.0) }
    open spec fn shp(&self) -> MatrixShape { MatrixShape::N }
//@fn file=src/algebra/matrix_types.rs in="ShapedMatrix for Symmetric<'_, M>" name=size
//@end
//@fn file=src/algebra/matrix_types.rs in="ShapedMatrix for Symmetric<'_, M>" name=shape
//@end
}
impl<'a> DenseMatrix<F> for Symmetric<'a, MatrixF> {
    open spec fn dm_wf(&self) -> bool { self.src.wf() && self.src.size.0 == self.src.size.1 }
    open spec fn at(&self, r: int, c: int) -> F { self.src.e(imin(r, c), imax(r, c)) }
    open spec fn srcv(&self) -> GM { gm(*self.src) }
//@fn file=src/algebra/dense/types.rs in="Index<(usize, usize)> for Symmetric<'_, DenseStorageMatrix<S, T>>" name=index rules=R1
//@end
}

//@type file=src/algebra/dense/types.rs name=Matrix
impl DenseStorageMatrix<Vec<F>, F> {
//@fn file=src/algebra/dense/core.rs in="impl<T> Matrix<T>" name=new rules=R1 ret=res
//@contract
    requires size.0 * size.1 == data@.len(),
    ensures res.size == size, res.data@ == data@, res.wf(),
//@pre
    proof { assert(data@.len() == data.len()); assert(size.0 * size.1 <= usize::MAX); }
//@end
//@fn file=src/algebra/dense/core.rs in="impl<T> Matrix<T>" name=zeros rules=R1 ret=res
//@contract
    requires size.0 * size.1 <= usize::MAX,
    ensures res.size == size, res.wf(), forall|k: int| 0 <= k < res.data@.len() ==> #[trigger] res.data@[k] == f_zero(),
//@end
// ---- new in this unit
//@fn file=src/algebra/dense/core.rs in="impl<S,T> DenseStorageMatrix<S,T>" name=t rules=R1 ret=r
//@contract
    ensures r.src == self,
//@end
//@fn file=src/algebra/dense/core.rs in="impl<S,T> DenseStorageMatrix<S,T>" name=sym rules=R1,drop:debug_assert!( ret=r
//@contract
    ensures r.src == self,
//@end
//@fn file=src/algebra/dense/core.rs in="impl<S,T> DenseStorageMatrix<S,T>" name=set_identity rules=R1,tupidx
//@contract
    requires old(self).wf(),
        // assert!(self.is_square()): documented panic otherwise
        old(self).size.0 == old(self).size.1,
    ensures final(self).size == old(self).size, final(self).wf(),
        forall|a: int, b: int| old(self).inb(a, b) ==> #[trigger] final(self).e(a, b) == (if a == b { f_one() } else { f_zero() }),
//@after_stmt 2
    proof {
        assert forall|a: int, b: int| self.inb(a, b) implies #[trigger] self.e(a, b) == f_zero() by { lemma_lin(self.size.0 as int, self.size.1 as int, a, b); }
    }
//@iter 1
it1
//@loop 1
        invariant
            it1.iter.end == self.size.1, self.size == old(self).size, self.wf(), self.size.0 == self.size.1,
            forall|a: int, b: int| old(self).inb(a, b) ==> #[trigger] self.e(a, b) == (if a == b && a < $var1 { f_one() } else { f_zero() }),
//@end
}
impl<'a> Symmetric<'a, MatrixF> {
//@fn file=src/algebra/dense/types.rs in="impl<T> Symmetric<'_, Matrix<T>>" name=pack_triu rules=R1,tupidx,R20 params=v
//@contract
    requires self.src.wf(), self.src.size.0 == self.src.size.1, self.src.size.1 < 0x1_0000_0000,
        // assert!(v.len() == numel): documented panic otherwise
        old(v)@.len() == tri(self.src.size.1 as int),
    ensures final(v)@.len() == old(v)@.len(),
        // C11: the upper triangle, column by column: v[tri(col) + row] = M[row, col] for row <= col
        forall|a: int, b: int| #[trigger] tslot(a, b) && 0 <= a <= b < self.src.size.1 ==> final(v)@[tri(b) + a] == self.src.e(a, b),
//@pre
    proof { lemma_tri_step(0); assert(tri(0) == 0); assert(v@.len() == v.len()); }
    let ghost nn = self.src.size.1 as int;
//@loop 1
        invariant
            self.src.wf(), self.src.size.0 == self.src.size.1, nn == self.src.size.1, v@.len() == old(v)@.len(), v@.len() == tri(nn), n == nn,
            k == tri($var1 as int),
            forall|a: int, b: int| #[trigger] tslot(a, b) && 0 <= a <= b < $var1 ==> v@[tri(b) + a] == self.src.e(a, b),
//@body_start 1
        proof { lemma_tri_step($var1 as int); lemma_tri_mono($var1 + 1, nn); }
        let ghost gc = $var1 as int;
//@loop 2
            invariant
                self.src.wf(), self.src.size.0 == self.src.size.1, nn == self.src.size.1, v@.len() == old(v)@.len(), v@.len() == tri(nn), gc == $var1, gc < nn,
                tri(gc + 1) == tri(gc) + gc + 1, tri(gc + 1) <= tri(nn), tri(gc) >= 0,
                k == tri(gc) + $var2,
                forall|a: int, b: int| #[trigger] tslot(a, b) && 0 <= a <= b < gc ==> v@[tri(b) + a] == self.src.e(a, b),
                forall|a: int| 0 <= a < $var2 ==> #[trigger] v@[tri(gc) + a] == self.src.e(a, gc),
//@body_start 2
            let ghost v1 = v@;
//@body_end 2
            proof {
                assert forall|a: int, b: int| #[trigger] tslot(a, b) && 0 <= a <= b < gc implies v@[tri(b) + a] == self.src.e(a, b) by {
                    lemma_tri_pos(a, b, gc);
                    assert(v@[tri(b) + a] == v1[tri(b) + a]);
                }
                assert forall|a: int| 0 <= a < $var2 + 1 implies #[trigger] v@[tri(gc) + a] == self.src.e(a, gc) by {
                    if a < $var2 { assert(v@[tri(gc) + a] == v1[tri(gc) + a]); }
                }
            }
//@body_end 1
        proof {
            assert forall|a: int, b: int| #[trigger] tslot(a, b) && 0 <= a <= b < gc + 1 implies v@[tri(b) + a] == self.src.e(a, b) by {
                if b == gc { assert(v@[tri(gc) + a] == self.src.e(a, gc)); }
            }
        }
//@end
}

// ================================================================== B. ghost matrix values and the ASSUMED BLAS / LAPACK engines
pub open spec fn gzeros(r: int, c: int) -> GM { GM { r: r, c: c, d: Seq::new((r * c) as nat, |k: int| f_zero()) } }
// the value svec_to_mat builds from x (order n)
pub open spec fn smat(n: int, x: Seq<F>) -> GM { GM { r: n, c: n, d: Seq::new((n * n) as nat, |k: int| sv_val(x, k % n, k / n)) } }
// ... and after lrscale(l, l):  diag(l) mat(x) diag(l)
pub open spec fn lrsmat(n: int, x: Seq<F>, l: Seq<F>) -> GM { GM { r: n, c: n, d: Seq::new((n * n) as nat, |k: int| f_mul(sv_val(x, k % n, k / n), f_mul(l[k % n], l[k / n]))) } }
pub proof fn lemma_divmod(n: int, a: int, b: int) requires 0 <= a < n, 0 <= b ensures (a + n * b) % n == a, (a + n * b) / n == b
{
    assert(a + n * b == b * n + a) by(nonlinear_arith);
    vstd::arithmetic::div_mod::lemma_fundamental_div_mod_converse(a + n * b, n, b, a);
}
pub proof fn lemma_split(m: int, n: int, k: int) requires m > 0, 0 <= k < m * n ensures 0 <= k % m < m, 0 <= k / m < n, k == k % m + m * (k / m)
{
    vstd::arithmetic::div_mod::lemma_fundamental_div_mod(k, m);
    vstd::arithmetic::div_mod::lemma_mod_pos_bound(k, m);
    let q = k / m;
    assert(q >= 0) by(nonlinear_arith) requires m * q + k % m == k, 0 <= k % m < m, k >= 0, m > 0;
    assert(q < n) by(nonlinear_arith) requires m * q + k % m == k, 0 <= k % m, k < m * n, m > 0;
}
// a well-formed matrix is determined by its entries
pub proof fn lemma_gm_eq(M: MatrixF, G: GM)
    requires M.wf(), G.r == M.size.0, G.c == M.size.1, G.d.len() == G.r * G.c,
        forall|a: int, b: int| M.inb(a, b) ==> #[trigger] M.e(a, b) == G.e(a, b),
    ensures gm(M) == G,
{
    let m = M.size.0 as int; let n = M.size.1 as int;
    assert forall|k: int| 0 <= k < M.data@.len() implies #[trigger] M.data@[k] == G.d[k] by {
        if m <= 0 { assert(m * n == 0) by(nonlinear_arith) requires m == 0; }
        lemma_split(m, n, k);
        assert(M.inb(k % m, k / m));
        assert(M.e(k % m, k / m) == G.e(k % m, k / m));
    }
    assert(M.data@ =~= G.d);
}
pub proof fn lemma_smat(M: MatrixF, n: int, x: Seq<F>)
    requires M.sq(n), forall|a: int, b: int| M.inb(a, b) ==> #[trigger] M.e(a, b) == sv_val(x, a, b),
    ensures gm(M) == smat(n, x),
{
    let G = smat(n, x);
    assert(n * n >= 0) by(nonlinear_arith);
    assert forall|a: int, b: int| M.inb(a, b) implies #[trigger] M.e(a, b) == G.e(a, b) by { lemma_divmod(n, a, b); lemma_lin(n, n, a, b); }
    lemma_gm_eq(M, G);
}
pub proof fn lemma_lrsmat(M: MatrixF, n: int, x: Seq<F>, l: Seq<F>)
    requires M.sq(n), forall|a: int, b: int| M.inb(a, b) ==> #[trigger] M.e(a, b) == f_mul(sv_val(x, a, b), f_mul(l[a], l[b])),
    ensures gm(M) == lrsmat(n, x, l),
{
    let G = lrsmat(n, x, l);
    assert(n * n >= 0) by(nonlinear_arith);
    assert forall|a: int, b: int| M.inb(a, b) implies #[trigger] M.e(a, b) == G.e(a, b) by { lemma_divmod(n, a, b); lemma_lin(n, n, a, b); }
    lemma_gm_eq(M, G);
}
pub proof fn lemma_gzeros(M: MatrixF)
    requires M.wf(), forall|k: int| 0 <= k < M.data@.len() ==> #[trigger] M.data@[k] == f_zero(),
    ensures gm(M) == gzeros(M.size.0 as int, M.size.1 as int),
{
    assert(M.data@ =~= gzeros(M.size.0 as int, M.size.1 as int).d);
}

// ---- ASSUMED: what the LAPACK / BLAS kernels compute, as uninterpreted functions of the VALUES handed to them
pub uninterp spec fn chol_ok(A: GM) -> bool;            // xpotrf reports success on (the upper triangle of) A
pub uninterp spec fn chol_of(A: GM) -> GM;              // ... and then this is the lower factor L, A = L L'
pub uninterp spec fn svd_ok(A: GM) -> bool;             // xgesdd / xgesvd report success
pub uninterp spec fn svd_s(A: GM) -> Seq<F>;            // singular values
pub uninterp spec fn svd_U(A: GM) -> GM;                // A = U diag(s) Vt
pub uninterp spec fn svd_Vt(A: GM) -> GM;
pub uninterp spec fn eig_ok(A: GM) -> bool;             // xsyevr reports success
pub uninterp spec fn eig_of(A: GM) -> Seq<F>;           // eigenvalues of the symmetric matrix given by the upper triangle of A
// gemm:  alpha * op_a(A) * op_b(B) + beta * C
pub uninterp spec fn mm(alpha: F, ta: MatrixShape, A: GM, tb: MatrixShape, B: GM, beta: F, C: GM) -> GM;
// syrk:  upper triangle of  alpha * op_a(A) * op_a(A)' + beta * C,  lower triangle of C kept
pub uninterp spec fn syrk_of(alpha: F, ta: MatrixShape, A: GM, beta: F, C: GM) -> GM;
// syr2k: upper triangle of  alpha * (A B' + B A') + beta * C,  lower triangle of C kept
pub uninterp spec fn syr2k_of(alpha: F, A: GM, B: GM, beta: F, C: GM) -> GM;
// BLAS: "when beta is supplied as zero then C need not be set on input" - the result does not depend on C then
pub open spec fn cin(beta: F, C: GM) -> GM { if f_eq(beta, f_zero()) { gzeros(C.r, C.c) } else { C } }

//@enum file=src/algebra/error_types.rs name=DenseFactorizationError rules=R12
//@struct file=src/algebra/dense/blas/cholesky.rs name=CholeskyEngine
//@struct file=src/algebra/dense/blas/svd.rs name=SVDEngine keep=s,U,Vt
//@struct file=src/algebra/dense/blas/syevr.rs name=EigEngine rules=R2 keep=λ

pub open spec fn ld_fold(L: GM, k: int) -> F decreases k { if k <= 0 { f_zero() } else { f_add(ld_fold(L, k - 1), f_ln(L.e(k - 1, k - 1))) } }
// log det (L L') = 2 sum ln L_ii, as the code evaluates it
pub open spec fn logdet_val(L: GM) -> F { f_add(ld_fold(L, L.r), ld_fold(L, L.r)) }
impl CholeskyEngine<F> {
//@fn file=src/algebra/dense/blas/cholesky.rs in="impl<T> CholeskyEngine<T>" name=new rules=R1 ret=r
//@contract
    requires n * n <= usize::MAX,
    ensures r.L.sq(n as int), forall|k: int| 0 <= k < r.L.data@.len() ==> #[trigger] r.L.data@[k] == f_zero(),
//@end
    // ASSUMED (LAPACK xpotrf behind the wrapper of blas/cholesky.rs)
    #[verifier::external_body]
    pub fn factor(&mut self, A: &mut MatrixF) -> (r: Result<(), DenseFactorizationError>)
        requires old(self).L.wf(), old(A).wf(),
        ensures final(A).size == old(A).size, final(A).wf(), final(self).L.size == old(self).L.size, final(self).L.wf(),
            (r is Ok) == (old(A).size == old(self).L.size && chol_ok(gm(*old(A)))),
            r is Ok ==> gm(final(self).L) == chol_of(gm(*old(A))),
    { unimplemented!() }
//@fn file=src/algebra/dense/blas/cholesky.rs in="FactorCholesky<T> for CholeskyEngine<T>" name=logdet rules=R1,tupidx ret=r
//@contract
    requires self.L.wf(), self.L.size.0 == self.L.size.1,
    ensures r == logdet_val(gm(self.L)),
//@loop 1
        invariant self.L.wf(), self.L.size.0 == self.L.size.1, n == self.L.size.0, ld == ld_fold(gm(self.L), $var1 as int),
//@end
}
impl SVDEngine<F> {
    // ASSUMED (allocation of the engine, blas/svd.rs)
    #[verifier::external_body]
    pub fn new(size: (usize, usize)) -> (r: Self)
        ensures r.s@.len() == imin(size.0 as int, size.1 as int), r.U.wf(), r.Vt.wf(),
            r.U.size.0 == size.0, r.U.size.1 == imin(size.0 as int, size.1 as int), r.Vt.size.0 == imin(size.0 as int, size.1 as int), r.Vt.size.1 == size.1,
    { unimplemented!() }
    // ASSUMED (LAPACK xgesdd / xgesvd, compact form; A is destroyed)
    #[verifier::external_body]
    pub fn factor(&mut self, A: &mut MatrixF) -> (r: Result<(), DenseFactorizationError>)
        requires old(self).U.wf(), old(self).Vt.wf(), old(A).wf(),
        ensures final(A).size == old(A).size, final(A).wf(),
            final(self).s@.len() == old(self).s@.len(), final(self).U.size == old(self).U.size, final(self).U.wf(), final(self).Vt.size == old(self).Vt.size, final(self).Vt.wf(),
            (r is Ok) == (old(self).U.size.0 == old(A).size.0 && old(self).Vt.size.1 == old(A).size.1 && svd_ok(gm(*old(A)))),
            r is Ok ==> final(self).s@ == svd_s(gm(*old(A))) && gm(final(self).U) == svd_U(gm(*old(A))) && gm(final(self).Vt) == svd_Vt(gm(*old(A))),
    { unimplemented!() }
}
impl EigEngine<F> {
    // ASSUMED (allocation of the engine, blas/syevr.rs)
    #[verifier::external_body]
    pub fn new(n: usize) -> (r: Self) ensures r.lambda@.len() == n, { unimplemented!() }
    // ASSUMED (LAPACK xsyevr, jobz = N, upper triangle; A is destroyed)
    #[verifier::external_body]
    pub fn eigvals(&mut self, A: &mut MatrixF) -> (r: Result<(), DenseFactorizationError>)
        requires old(A).wf(),
        ensures final(A).size == old(A).size, final(A).wf(), final(self).lambda@.len() == old(self).lambda@.len(),
            (r is Ok) == (old(A).size.0 == old(A).size.1 && old(A).size.0 == old(self).lambda@.len() && eig_ok(gm(*old(A)))),
            r is Ok ==> final(self).lambda@ == eig_of(gm(*old(A))),
    { unimplemented!() }
}
impl DenseStorageMatrix<Vec<F>, F> {
    // ASSUMED (BLAS xgemm behind blas/gemm.rs): self <- alpha * op(A) * op(B) + beta * self.  What reaches BLAS is the transposition flag
    // `shape()` and the storage `data()` of each operand.  The real method returns `&Self`; every caller here discards it.
    #[verifier::external_body]
    pub fn mul<MATA: DenseMatrix<F>, MATB: DenseMatrix<F>>(&mut self, A: &MATA, B: &MATB, alpha: F, beta: F)
        requires old(self).wf(), A.dm_wf(), B.dm_wf(),
            // assert!(A.ncols() == B.nrows() && self.nrows() == A.nrows() && self.ncols() == B.ncols())
            A.sz().1 == B.sz().0, old(self).size.0 == A.sz().0, old(self).size.1 == B.sz().1,
        ensures final(self).size == old(self).size, final(self).wf(),
            gm(*final(self)) == mm(alpha, A.shp(), A.srcv(), B.shp(), B.srcv(), beta, cin(beta, gm(*old(self)))),
    { unimplemented!() }
    // ASSUMED (BLAS xsyrk, uplo = U, behind blas/syrk.rs)
    #[verifier::external_body]
    pub fn syrk<MATA: DenseMatrix<F>>(&mut self, A: &MATA, alpha: F, beta: F)
        requires old(self).wf(), A.dm_wf(),
            // assert!(self.nrows() == A.nrows()); assert!(self.ncols() == A.nrows());
            old(self).size.0 == A.sz().0, old(self).size.1 == A.sz().0,
        ensures final(self).size == old(self).size, final(self).wf(),
            gm(*final(self)) == syrk_of(alpha, A.shp(), A.srcv(), beta, gm(*old(self))),
            forall|a: int, b: int| old(self).inb(a, b) && a > b ==> #[trigger] final(self).e(a, b) == old(self).e(a, b),
    { unimplemented!() }
    // ASSUMED (BLAS xsyr2k, uplo = U, trans = N, behind blas/syr2k.rs)
    #[verifier::external_body]
    pub fn syr2k(&mut self, A: &MatrixF, B: &MatrixF, alpha: F, beta: F)
        requires old(self).wf(), A.wf(), B.wf(),
            // the four assert!s of syr2k.rs
            old(self).size.0 == A.size.0, old(self).size.0 == B.size.0, old(self).size.1 == B.size.0, A.size.1 == B.size.1,
        ensures final(self).size == old(self).size, final(self).wf(),
            gm(*final(self)) == syr2k_of(alpha, gm(*A), gm(*B), beta, gm(*old(self))),
            forall|a: int, b: int| old(self).inb(a, b) && a > b ==> #[trigger] final(self).e(a, b) == old(self).e(a, b),
    { unimplemented!() }
}

// ================================================================== C. the cone object
pub struct CoreSettings<T> { pub _p: Option<T> }     // stand-in: step_length never reads its settings argument
//@struct file=src/solver/core/cones/psdtrianglecone.rs name=PSDConeData rules=R2
//@struct file=src/solver/core/cones/psdtrianglecone.rs name=PSDTriangleCone

pub open spec fn all_eq(a: Seq<F>, c: F) -> bool { forall|i: int| 0 <= i < a.len() ==> #[trigger] a[i] == c }
pub open spec fn is_ident(M: MatrixF) -> bool { forall|a: int, b: int| M.inb(a, b) ==> #[trigger] M.e(a, b) == (if a == b { f_one() } else { f_zero() }) }
impl PSDConeData<F> {
    // shapes of every member for a cone of order n
    pub open spec fn dwf(&self, n: int) -> bool {
        &&& self.chol1.L.sq(n) && self.chol2.L.sq(n)
        &&& self.SVD.s@.len() == n && self.SVD.U.sq(n) && self.SVD.Vt.sq(n)
        &&& self.Eig.lambda@.len() == n
        &&& self.lambda@.len() == n && self.Lambdaisqrt@.len() == n
        &&& self.R.sq(n) && self.Rinv.sq(n) && self.Hs.sq(tri(n))
        &&& self.workmat1.sq(n) && self.workmat2.sq(n) && self.workmat3.sq(n)
        &&& self.workvec@.len() == tri(n)
    }
    // the scaling proper: what update_scaling computes and the operators read (engines and work space are scratch)
    pub open spec fn same_scaling(&self, o: &Self) -> bool {
        &&& self.lambda@ == o.lambda@ && self.Lambdaisqrt@ == o.Lambdaisqrt@
        &&& gm(self.R) == gm(o.R) && gm(self.Rinv) == gm(o.Rinv) && gm(self.Hs) == gm(o.Hs)
    }
//@fn file=src/solver/core/cones/psdtrianglecone.rs in="impl<T> PSDConeData<T>" name=new rules=R1,R2 ret=r
//@contract
    requires tri(n as int) < 0x1_0000_0000,
    ensures r.dwf(n as int), all_eq(r.lambda@, f_zero()), all_eq(r.Lambdaisqrt@, f_zero()), all_eq(r.workvec@, f_zero()),
        all_eq(r.R.data@, f_zero()), all_eq(r.Rinv.data@, f_zero()), all_eq(r.Hs.data@, f_zero()),
//@pre
    proof { lemma_tri_small(n as int); }
//@end
}
impl PSDTriangleCone<F> {
    pub open spec fn wf(&self) -> bool { tri(self.n as int) < 0x1_0000_0000 && self.numel == tri(self.n as int) && self.data.dwf(self.n as int) }
//@fn file=src/solver/core/cones/psdtrianglecone.rs in="impl<T> PSDTriangleCone<T>" name=new rules=R1,R2 ret=r
//@contract
    requires
        // Hs has triangular_number(n)^2 entries: beyond this bound `size.0 * size.1` overflows in Matrix::zeros
        tri(n as int) < 0x1_0000_0000,
    ensures r.wf(), r.n == n, r.numel == tri(n as int),
//@pre
    proof { lemma_tri_small(n as int); }
//@end
//@fn file=src/solver/core/cones/psdtrianglecone.rs in="Cone<T> for PSDTriangleCone<T>" name=degree rules=R1,R2 ret=r
//@contract
    ensures r == self.n,
//@end
//@fn file=src/solver/core/cones/psdtrianglecone.rs in="Cone<T> for PSDTriangleCone<T>" name=numel rules=R1,R2 ret=r
//@contract
    ensures r == self.numel,
//@end
//@fn file=src/solver/core/cones/psdtrianglecone.rs in="Cone<T> for PSDTriangleCone<T>" name=is_symmetric rules=R1,R2 ret=r
//@contract
    ensures r,
//@end
//@fn file=src/solver/core/cones/psdtrianglecone.rs in="Cone<T> for PSDTriangleCone<T>" name=is_sparse_expandable rules=R1,R2 ret=r
//@contract
    ensures !r,
//@end
//@fn file=src/solver/core/cones/psdtrianglecone.rs in="Cone<T> for PSDTriangleCone<T>" name=allows_primal_dual_scaling rules=R1,R2 ret=r
//@contract
    ensures r,
//@end
//@fn file=src/solver/core/cones/psdtrianglecone.rs in="Cone<T> for PSDTriangleCone<T>" name=Hs_is_diagonal rules=R1,R2 ret=r
//@contract
    ensures !r,
//@end
//@fn file=src/solver/core/cones/psdtrianglecone.rs in="Cone<T> for PSDTriangleCone<T>" name=rectify_equilibration rules=R1,R2 ret=r params=delta,e
//@contract
    requires old(delta)@.len() == e@.len(),
    // "scalar equilibration": delta_i = (1 / e_i) * mean(e), as for every non-separable cone (unit rectify)
    ensures r, final(delta)@.len() == e@.len(), forall|i: int| 0 <= i < e@.len() ==> #[trigger] final(delta)@[i] == f_mul(f_recip(e@[i]), vm_mean(e@)),
//@end
//@fn file=src/solver/core/cones/psdtrianglecone.rs in="Cone<T> for PSDTriangleCone<T>" name=scaled_unit_shift rules=R1,R2 params=z,alpha,pd
//@contract
    requires tri(self.n as int) < 0x1_0000_0000, old(z)@.len() >= tri(self.n as int),
    ensures final(z)@.len() == old(z)@.len(),
        // C07 / C15: alpha is added to exactly the diagonal entries (a, a) of the packed triangle, i.e. to the positions tri(a) + a
        forall|a: int, b: int| #[trigger] tslot(a, b) && 0 <= a <= b < self.n ==>
            final(z)@[tri(b) + a] == (if a == b { f_add(old(z)@[tri(b) + a], alpha) } else { old(z)@[tri(b) + a] }),
        forall|i: int| tri(self.n as int) <= i < old(z)@.len() ==> #[trigger] final(z)@[i] == old(z)@[i],
//@pre
    proof { lemma_tri_small(self.n as int); lemma_tri_step(0); assert(tri(0) == 0); }
    let ghost nn = self.n as int;
//@loop 1
        invariant
            nn == self.n, nn < 92682, z@.len() == old(z)@.len(), z@.len() >= tri(nn),
            forall|a: int, b: int| #[trigger] tslot(a, b) && 0 <= a <= b < $var1 ==>
                z@[tri(b) + a] == (if a == b { f_add(old(z)@[tri(b) + a], alpha) } else { old(z)@[tri(b) + a] }),
            forall|i: int| tri($var1 as int) <= i < z@.len() ==> #[trigger] z@[i] == old(z)@[i],
//@body_start 1
        proof {
            lemma_tri_pos($var1 as int, $var1 as int, nn);
            assert forall|a: int, b: int| #[trigger] tslot(a, b) && 0 <= a <= b < $var1 implies tri(b) + a < tri($var1 as int) by { lemma_tri_pos(a, b, $var1 as int); }
        }
//@end
//@fn file=src/solver/core/cones/psdtrianglecone.rs in="Cone<T> for PSDTriangleCone<T>" name=unit_initialization rules=R1,R2
//@contract
    requires tri(self.n as int) < 0x1_0000_0000, old(z)@.len() >= tri(self.n as int), old(s)@.len() >= tri(self.n as int),
    ensures final(z)@.len() == old(z)@.len(), final(s)@.len() == old(s)@.len(),
        // s = z = svec(I): (0 + 1) on the diagonal positions, 0 everywhere else
        forall|a: int, b: int| #[trigger] tslot(a, b) && 0 <= a <= b < self.n ==> final(s)@[tri(b) + a] == (if a == b { f_add(f_zero(), f_one()) } else { f_zero() }),
        forall|a: int, b: int| #[trigger] tslot(a, b) && 0 <= a <= b < self.n ==> final(z)@[tri(b) + a] == (if a == b { f_add(f_zero(), f_one()) } else { f_zero() }),
        forall|i: int| tri(self.n as int) <= i < old(s)@.len() ==> #[trigger] final(s)@[i] == f_zero(),
        forall|i: int| tri(self.n as int) <= i < old(z)@.len() ==> #[trigger] final(z)@[i] == f_zero(),
//@post
    proof {
        assert forall|a: int, b: int| #[trigger] tslot(a, b) && 0 <= a <= b < self.n implies 0 <= tri(b) + a < tri(self.n as int) by { lemma_tri_pos(a, b, self.n as int); }
    }
//@end
//@fn file=src/solver/core/cones/psdtrianglecone.rs in="Cone<T> for PSDTriangleCone<T>" name=set_identity_scaling rules=R1,R2
//@contract
    requires old(self).wf(),
    ensures final(self).wf(), final(self).n == old(self).n,
        is_ident(final(self).data.R), is_ident(final(self).data.Rinv), is_ident(final(self).data.Hs),
        final(self).data.lambda@ == old(self).data.lambda@, final(self).data.Lambdaisqrt@ == old(self).data.Lambdaisqrt@,
//@end
//@fn file=src/solver/core/cones/psdtrianglecone.rs in="Cone<T> for PSDTriangleCone<T>" name=affine_ds rules=R1,R2
//@contract
    requires self.wf(), old(ds)@.len() >= tri(self.n as int),
    ensures final(ds)@.len() == old(ds)@.len(),
        // lambda o lambda = diag(lambda_a^2): lambda_a * lambda_a on the diagonal positions, 0 everywhere else
        forall|a: int, b: int| #[trigger] tslot(a, b) && 0 <= a <= b < self.n ==>
            final(ds)@[tri(b) + a] == (if a == b { f_mul(self.data.lambda@[a], self.data.lambda@[a]) } else { f_zero() }),
        forall|i: int| tri(self.n as int) <= i < old(ds)@.len() ==> #[trigger] final(ds)@[i] == f_zero(),
//@pre
    proof { lemma_tri_small(self.n as int); lemma_tri_step(0); assert(tri(0) == 0); }
    let ghost nn = self.n as int;
//@loop 1
        invariant
            self.wf(), nn == self.n, nn < 92682, ds@.len() == old(ds)@.len(), ds@.len() >= tri(nn),
            forall|a: int, b: int| #[trigger] tslot(a, b) && 0 <= a <= b < $var1 ==>
                ds@[tri(b) + a] == (if a == b { f_mul(self.data.lambda@[a], self.data.lambda@[a]) } else { f_zero() }),
            forall|i: int| tri($var1 as int) <= i < ds@.len() ==> #[trigger] ds@[i] == f_zero(),
//@body_start 1
        proof {
            lemma_tri_pos($var1 as int, $var1 as int, nn);
            assert forall|a: int, b: int| #[trigger] tslot(a, b) && 0 <= a <= b < $var1 implies tri(b) + a < tri($var1 as int) by { lemma_tri_pos(a, b, $var1 as int); }
        }
//@end
}

// ================================================================== D. the operators
// entry tri(b) + a (a <= b) of svec(M), read off a matrix VALUE: what mat_to_svec writes for a plain matrix ...
pub open spec fn msv(M: GM, a: int, b: int) -> F { if a == b { M.e(a, b) } else { f_mul(f_add(M.e(a, b), M.e(b, a)), f_frac_1_sqrt_2()) } }
// ... and for the Symmetric view of a matrix whose upper triangle alone is meaningful (both reads hit the upper entry)
pub open spec fn msv_sym(M: GM, a: int, b: int) -> F { if a == b { M.e(a, b) } else { f_mul(f_add(M.e(a, b), M.e(a, b)), f_frac_1_sqrt_2()) } }
// entry (p, q) of the symmetric matrix given by the upper triangle of A
pub open spec fn sy(A: GM, p: int, q: int) -> F { A.e(imin(p, q), imax(p, q)) }

// ------------------------------------------------------------------ skron: upper triangle of the symmetric Kronecker product A (x)_s A
// row index <-> (i, j), i <= j; column index <-> (k, l), k <= l, both through the packed-triangle map tri(.) + .
pub open spec fn skron_val(A: GM, sqrt2: F, i: int, j: int, k: int, l: int) -> F {
    if i != j && k != l { f_add(f_mul(sy(A, i, k), sy(A, j, l)), f_mul(sy(A, i, l), sy(A, j, k))) }
    else if i == j && k != l { f_mul(f_mul(sqrt2, sy(A, j, l)), sy(A, j, k)) }
    else if i != j && k == l { f_mul(f_mul(sqrt2, sy(A, i, l)), sy(A, j, k)) }
    else { f_mul(sy(A, j, l), sy(A, j, l)) }
}
pub open spec fn kslot(i: int, j: int, k: int, l: int) -> bool { true }
pub open spec fn rslot(i: int, j: int) -> bool { true }
// out holds skron_val in every upper-triangle position of the columns before `col`
pub open spec fn skron_cols(out: MatrixF, A: GM, sqrt2: F, n: int, col: int) -> bool {
    forall|i: int, j: int, k: int, l: int| #[trigger] kslot(i, j, k, l) && 0 <= i <= j < n && 0 <= k <= l < n && tri(l) + k < col && tri(j) + i <= tri(l) + k
        ==> out.e(tri(j) + i, tri(l) + k) == skron_val(A, sqrt2, i, j, k, l)
}
// ... and in the rows before `row` of column (k, l)
pub open spec fn skron_rows(out: MatrixF, A: GM, sqrt2: F, n: int, k: int, l: int, row: int) -> bool {
    forall|i: int, j: int| #[trigger] rslot(i, j) && 0 <= i <= j < n && tri(j) + i < row ==> out.e(tri(j) + i, tri(l) + k) == skron_val(A, sqrt2, i, j, k, l)
}
pub open spec fn lower_kept(M1: MatrixF, M0: MatrixF) -> bool { forall|a: int, b: int| M0.inb(a, b) && a > b ==> #[trigger] M1.e(a, b) == M0.e(a, b) }
//@fn file=src/solver/core/cones/psdtrianglecone.rs name=skron rules=R1,R2,tupidx,R20 params=out,A
//@contract
    requires A.src.wf(), A.src.size.0 == A.src.size.1, tri(A.src.size.0 as int) < 0x1_0000_0000, old(out).sq(tri(A.src.size.0 as int)),
    ensures final(out).sq(tri(A.src.size.0 as int)),
        // C13 / C11: every upper-triangle entry of the Hs block, (row, col) = (tri(j) + i, tri(l) + k), is the symmetric Kronecker entry
        skron_cols(*final(out), gm(*A.src), f_sqrt2(), A.src.size.0 as int, tri(A.src.size.0 as int)),
        // the lower triangle is never written
        lower_kept(*final(out), *old(out)),
//@pre
    let ghost nn = A.src.size.0 as int;
    let ghost Ag = gm(*A.src);
    let ghost tn = tri(nn);
    proof { lemma_tri_small(nn); lemma_tri_step(0); assert(tri(0) == 0); }
//@loop 1
        invariant
            A.src.wf(), A.src.size.0 == nn, A.src.size.1 == nn, Ag == gm(*A.src), tn == tri(nn), tn < 0x1_0000_0000, n == nn, sqrt2 == f_sqrt2(),
            out.sq(tn), old(out).sq(tn), col == tri($var1 as int),
            skron_cols(*out, Ag, sqrt2, nn, col as int), lower_kept(*out, *old(out)),
//@body_start 1
        let ghost gl = $var1 as int;
        proof { lemma_tri_pos(gl, gl, nn); }
//@loop 2
            invariant
                A.src.wf(), A.src.size.0 == nn, A.src.size.1 == nn, Ag == gm(*A.src), tn == tri(nn), tn < 0x1_0000_0000, n == nn, sqrt2 == f_sqrt2(),
                gl == $var1, gl < nn, tri(gl + 1) == tri(gl) + gl + 1, tri(gl + 1) <= tn, tri(gl) >= 0,
                out.sq(tn), old(out).sq(tn), col == tri(gl) + $var2,
                skron_cols(*out, Ag, sqrt2, nn, col as int), lower_kept(*out, *old(out)),
//@body_start 2
            let ghost gk = $var2 as int;
//@loop 3
                invariant
                    A.src.wf(), A.src.size.0 == nn, A.src.size.1 == nn, Ag == gm(*A.src), tn == tri(nn), tn < 0x1_0000_0000, n == nn, sqrt2 == f_sqrt2(),
                    gl == $var1, gl < nn, gk == $var2, gk <= gl, tri(gl + 1) == tri(gl) + gl + 1, tri(gl + 1) <= tn, tri(gl) >= 0,
                    out.sq(tn), old(out).sq(tn), col == tri(gl) + gk, kl_eq == (gk == gl),
                    row == imin(tri($var3 as int), col + 1),
                    skron_cols(*out, Ag, sqrt2, nn, col as int), skron_rows(*out, Ag, sqrt2, nn, gk, gl, row as int), lower_kept(*out, *old(out)),
//@body_start 3
                let ghost gj = $var3 as int;
                proof { lemma_tri_pos(gj, gj, nn); }
//@loop 4
                    invariant
                        A.src.wf(), A.src.size.0 == nn, A.src.size.1 == nn, Ag == gm(*A.src), tn == tri(nn), tn < 0x1_0000_0000, n == nn, sqrt2 == f_sqrt2(),
                        gl == $var1, gl < nn, gk == $var2, gk <= gl, tri(gl + 1) == tri(gl) + gl + 1, tri(gl + 1) <= tn, tri(gl) >= 0,
                        gj == $var3, gj < nn, tri(gj + 1) == tri(gj) + gj + 1, tri(gj) >= 0,
                        out.sq(tn), old(out).sq(tn), col == tri(gl) + gk, kl_eq == (gk == gl), Ajl == sy(Ag, gj, gl), Ajk == sy(Ag, gj, gk),
                        row == imin(tri(gj) + $var4, col + 1),
                        skron_cols(*out, Ag, sqrt2, nn, col as int), skron_rows(*out, Ag, sqrt2, nn, gk, gl, row as int), lower_kept(*out, *old(out)),
                    ensures
                        row == imin(tri(gj + 1), col + 1),
//@body_start 4
                    let ghost gi = $var4 as int;
                    let ghost out1 = *out;
                    let ghost row1 = row as int;
//@before "row += 1;"
                    proof {
                        assert(out1.inb(row1, col as int));
                        assert(row1 == tri(gj) + gi && row1 <= col);
                        assert(out.e(row1, col as int) == skron_val(Ag, sqrt2, gi, gj, gk, gl));
                        assert forall|i: int, j: int, k: int, l: int| #[trigger] kslot(i, j, k, l) && 0 <= i <= j < nn && 0 <= k <= l < nn && tri(l) + k < col && tri(j) + i <= tri(l) + k
                            implies out.e(tri(j) + i, tri(l) + k) == skron_val(Ag, sqrt2, i, j, k, l) by {
                            lemma_tri_pos(k, l, nn); lemma_tri_pos(i, j, nn);
                            assert(out1.inb(tri(j) + i, tri(l) + k));
                            assert(out1.e(tri(j) + i, tri(l) + k) == skron_val(Ag, sqrt2, i, j, k, l));
                        }
                        assert forall|i: int, j: int| #[trigger] rslot(i, j) && 0 <= i <= j < nn && tri(j) + i < row1 + 1
                            implies out.e(tri(j) + i, tri(gl) + gk) == skron_val(Ag, sqrt2, i, j, gk, gl) by {
                            lemma_tri_pos(i, j, nn);
                            if tri(j) + i == row1 { lemma_tri_unique(j, i, gj, gi); }
                            else { assert(out1.inb(tri(j) + i, col as int)); assert(out1.e(tri(j) + i, tri(gl) + gk) == skron_val(Ag, sqrt2, i, j, gk, gl)); }
                        }
                        assert forall|a: int, b: int| old(out).inb(a, b) && a > b implies #[trigger] out.e(a, b) == old(out).e(a, b) by {
                            assert(out1.inb(a, b)); assert(out1.e(a, b) == old(out).e(a, b));
                        }
                    }
//@body_end 2
            proof {
                // the column is complete: row == col + 1, so every row position <= col is filled
                lemma_tri_mono(0, nn);
                assert forall|i: int, j: int, k: int, l: int| #[trigger] kslot(i, j, k, l) && 0 <= i <= j < nn && 0 <= k <= l < nn && tri(l) + k < col && tri(j) + i <= tri(l) + k
                    implies out.e(tri(j) + i, tri(l) + k) == skron_val(Ag, sqrt2, i, j, k, l) by {
                    if tri(l) + k == col - 1 {
                        lemma_tri_unique(l, k, gl, gk);
                        assert(rslot(i, j));
                    }
                }
            }
//@end

// ------------------------------------------------------------------ multiplication by W, W', W^-1, W^-T:  Y = alpha * (R' X R  resp.  R X R') + beta * Y
pub open spec fn wx_tmp(ta: MatrixShape, Rx: GM, n: int, x: Seq<F>) -> GM {
    match ta {
        MatrixShape::T => mm(f_one(), MatrixShape::N, smat(n, x), MatrixShape::T, Rx, f_zero(), gzeros(n, n)),      // tmp = X Rx'
        MatrixShape::N => mm(f_one(), MatrixShape::T, Rx, MatrixShape::N, smat(n, x), f_zero(), gzeros(n, n)),      // tmp = Rx' X
    }
}
pub open spec fn wx_mat(ta: MatrixShape, Rx: GM, n: int, x: Seq<F>, y0: Seq<F>, alpha: F, beta: F) -> GM {
    match ta {
        MatrixShape::T => mm(alpha, MatrixShape::N, Rx, MatrixShape::N, wx_tmp(ta, Rx, n, x), beta, cin(beta, smat(n, y0))),   // Y = alpha Rx tmp + beta Y
        MatrixShape::N => mm(alpha, MatrixShape::N, wx_tmp(ta, Rx, n, x), MatrixShape::N, Rx, beta, cin(beta, smat(n, y0))),   // Y = alpha tmp Rx + beta Y
    }
}
// y1 = svec(wx_mat) on the packed triangle, untouched beyond it
pub open spec fn is_mulW(ta: MatrixShape, y1: Seq<F>, y0: Seq<F>, x: Seq<F>, alpha: F, beta: F, Rx: GM, n: int) -> bool {
    &&& y1.len() == y0.len()
    &&& forall|a: int, b: int| #[trigger] tslot(a, b) && 0 <= a <= b < n ==> y1[tri(b) + a] == msv(wx_mat(ta, Rx, n, x, y0, alpha, beta), a, b)
    &&& forall|i: int| tri(n) <= i < y0.len() ==> #[trigger] y1[i] == y0[i]
}
//@fn file=src/solver/core/cones/psdtrianglecone.rs name=mul_Wx_inner rules=R1,R2
//@contract
    requires Rx.wf(), Rx.size.0 == Rx.size.1, old(workmat1).sq(Rx.size.0 as int), old(workmat2).sq(Rx.size.0 as int), old(workmat3).sq(Rx.size.0 as int),
        x@.len() >= tri(Rx.size.0 as int), old(y)@.len() >= tri(Rx.size.0 as int),
    ensures final(workmat1).sq(Rx.size.0 as int), final(workmat2).sq(Rx.size.0 as int), final(workmat3).sq(Rx.size.0 as int),
        // C13: which engine on which operand with which flag, in which order: X = mat(x), Y = mat(y); T: tmp = X Rx', Y = a Rx tmp + b Y;
        // N: tmp = Rx' X, Y = a tmp Rx + b Y; y = svec(Y)
        is_mulW(is_transpose, final(y)@, old(y)@, x@, alpha, beta, gm(*Rx), Rx.size.0 as int),
//@pre
    let ghost n = Rx.size.0 as int;
    let ghost y0 = y@;
//@before "match is_transpose"
    proof { lemma_smat(*X, n, x@); lemma_smat(*Y, n, y0); }
//@end

// ------------------------------------------------------------------ step length of one scaled direction
pub open spec fn slpc_gamma(n: int, d: Seq<F>, l: Seq<F>) -> F { if d.len() == 0 { f_maxval() } else { vm_minimum(eig_of(lrsmat(n, d, l))) } }
// C15: alpha = min(-1 / gamma, alphamax) when the smallest eigenvalue gamma of  Lambda^-1/2 mat(d) Lambda^-1/2  is negative, alphamax otherwise
pub open spec fn slpc_val(n: int, d: Seq<F>, l: Seq<F>, alphamax: F) -> F {
    let g = slpc_gamma(n, d, l);
    if f_lt(g, f_zero()) { f_min(f_neg(f_recip(g)), alphamax) } else { alphamax }
}
//@fn file=src/solver/core/cones/psdtrianglecone.rs name=step_length_psd_component rules=R1,R2,R13e ret=r
//@contract
    requires old(workDelta).wf(), old(workDelta).size.0 == old(workDelta).size.1, d@.len() == 0 || d@.len() >= tri(old(workDelta).size.0 as int),
        Lambdaisqrt@.len() >= old(workDelta).size.0,
    ensures final(workDelta).sq(old(workDelta).size.0 as int), final(engine).lambda@.len() == old(engine).lambda@.len(),
        r == slpc_val(old(workDelta).size.0 as int, d@, Lambdaisqrt@, alphamax),
        // reaching the return means the eigenvalue engine reported success (`expect`)
        d@.len() > 0 ==> eig_ok(lrsmat(old(workDelta).size.0 as int, d@, Lambdaisqrt@)),
//@before "engine.eigvals("
            proof { lemma_lrsmat(*workDelta, old(workDelta).size.0 as int, d@, Lambdaisqrt@); }
//@end

// ------------------------------------------------------------------ Jordan product and lambda \ .
// x = y o z = (Y Z + Z Y) / 2:  X = 0; syr2k(Y, Z, 0.5, 0) fills the upper triangle; x = svec of the symmetric view
pub open spec fn circ_mat(n: int, y: Seq<F>, z: Seq<F>) -> GM { syr2k_of(f_lit(0.5f64), smat(n, y), smat(n, z), f_zero(), gzeros(n, n)) }
pub open spec fn is_circ(x1: Seq<F>, x0: Seq<F>, y: Seq<F>, z: Seq<F>, n: int) -> bool {
    &&& x1.len() == x0.len()
    &&& forall|a: int, b: int| #[trigger] tslot(a, b) && 0 <= a <= b < n ==> x1[tri(b) + a] == msv_sym(circ_mat(n, y, z), a, b)
    &&& forall|i: int| tri(n) <= i < x0.len() ==> #[trigger] x1[i] == x0[i]
}
// entry (i, j) of  lambda \ Z :  2 Z_ij / (lambda_i + lambda_j)
pub open spec fn lic(z: Seq<F>, lam: Seq<F>, i: int, j: int) -> F { f_div(f_mul(f_lit(2.0f64), sv_val(z, i, j)), f_add(lam[i], lam[j])) }
pub open spec fn is_linv(x1: Seq<F>, x0: Seq<F>, z: Seq<F>, lam: Seq<F>, n: int) -> bool {
    &&& x1.len() == x0.len()
    &&& forall|a: int, b: int| #[trigger] tslot(a, b) && 0 <= a <= b < n ==>
            x1[tri(b) + a] == (if a == b { lic(z, lam, a, b) } else { f_mul(f_add(lic(z, lam, a, b), lic(z, lam, b, a)), f_frac_1_sqrt_2()) })
    &&& forall|i: int| tri(n) <= i < x0.len() ==> #[trigger] x1[i] == x0[i]
}
// margins: sum of the positive eigenvalues, as the fold the code performs
pub open spec fn pos_sum(e: Seq<F>, k: int) -> F decreases k { if k <= 0 { f_zero() } else { f_add(pos_sum(e, k - 1), f_max(e[k - 1], f_zero())) } }
// the point x + alpha dx the barrier is evaluated at
pub open spec fn shifted(x: Seq<F>, dx: Seq<F>, alpha: F) -> Seq<F> { Seq::new(x.len(), |i: int| f_add(f_mul(f_one(), x[i]), f_mul(alpha, dx[i]))) }
// log det mat(x + alpha dx) through the Cholesky engine; +inf when the factorisation fails
pub open spec fn lb_val(n: int, x: Seq<F>, dx: Seq<F>, alpha: F) -> F {
    let Q = smat(n, shifted(x, dx, alpha));
    if chol_ok(Q) { logdet_val(chol_of(Q)) } else { f_inf() }
}

impl PSDTriangleCone<F> {
    // everything but scratch space is as before
    pub open spec fn kept(&self, o: &Self) -> bool { self.wf() && self.n == o.n && self.numel == o.numel && self.data.same_scaling(&*o.data) }
//@fn file=src/solver/core/cones/psdtrianglecone.rs in="Cone<T> for PSDTriangleCone<T>" name=margins rules=R1,R2,R13e,R24 ret=r params=z,pd
//@contract
    requires old(self).wf(), old(z)@.len() == old(self).numel,
    ensures final(self).kept(old(self)), final(z)@ == old(z)@,
        old(z)@.len() == 0 ==> r.0 == f_maxval() && r.1 == f_zero(),
        // C07 / C15: alpha = smallest eigenvalue of mat(z), beta = sum of its positive eigenvalues
        old(z)@.len() > 0 ==> eig_ok(smat(old(self).n as int, old(z)@)) && r.0 == vm_minimum(eig_of(smat(old(self).n as int, old(z)@)))
            && r.1 == pos_sum(eig_of(smat(old(self).n as int, old(z)@)), old(self).n as int),
//@before "self.data.Eig.eigvals("
            proof { lemma_smat(*Z, old(self).n as int, z@); }
//@iter 1
it
//@loop 1
                invariant it.seq().len() == e@.len(), forall|k: int| 0 <= k < e@.len() ==> *(#[trigger] it.seq()[k]) == e@[k],
                    s == pos_sum(e@, it.index@ as int),
//@end
//@fn file=src/solver/core/cones/psdtrianglecone.rs in="Cone<T> for PSDTriangleCone<T>" name=get_Hs rules=R1,R2
//@contract
    requires self.wf(), old(Hsblock)@.len() == tri(self.numel as int),
    ensures final(Hsblock)@.len() == old(Hsblock)@.len(),
        // C11: the KKT block is the packed upper triangle of the stored Hs, column by column
        forall|a: int, b: int| #[trigger] tslot(a, b) && 0 <= a <= b < self.numel ==> final(Hsblock)@[tri(b) + a] == self.data.Hs.e(a, b),
//@end
//@fn file=src/solver/core/cones/psdtrianglecone.rs in="SymmetricCone<T> for PSDTriangleCone<T>" name=mul_W rules=R1,R2
//@contract
    requires old(self).wf(), x@.len() >= old(self).numel, old(y)@.len() >= old(self).numel,
    ensures final(self).kept(old(self)), is_mulW(is_transpose, final(y)@, old(y)@, x@, alpha, beta, gm(old(self).data.R), old(self).n as int),
//@end
//@fn file=src/solver/core/cones/psdtrianglecone.rs in="SymmetricCone<T> for PSDTriangleCone<T>" name=mul_Winv rules=R1,R2
//@contract
    requires old(self).wf(), x@.len() >= old(self).numel, old(y)@.len() >= old(self).numel,
    ensures final(self).kept(old(self)), is_mulW(is_transpose, final(y)@, old(y)@, x@, alpha, beta, gm(old(self).data.Rinv), old(self).n as int),
//@end
//@fn file=src/solver/core/cones/psdtrianglecone.rs in="Cone<T> for PSDTriangleCone<T>" name=mul_Hs rules=R1,R2
//@contract
    requires old(self).wf(), x@.len() >= old(self).numel, old(y)@.len() >= old(self).numel, old(work)@.len() >= old(self).numel,
    ensures final(self).kept(old(self)),
        // C13: "the operator applied when recovering the slack step":  work = W x,  y = W' work
        is_mulW(MatrixShape::N, final(work)@, old(work)@, x@, f_one(), f_zero(), gm(old(self).data.R), old(self).n as int),
        is_mulW(MatrixShape::T, final(y)@, old(y)@, final(work)@, f_one(), f_zero(), gm(old(self).data.R), old(self).n as int),
//@end
//@fn file=src/solver/core/cones/psdtrianglecone.rs in="JordanAlgebra<T> for PSDTriangleCone<T>" name=circ_op rules=R1,R2
//@contract
    requires old(self).wf(), old(x)@.len() >= old(self).numel, y@.len() >= old(self).numel, z@.len() >= old(self).numel,
    ensures final(self).kept(old(self)), is_circ(final(x)@, old(x)@, y@, z@, old(self).n as int),
//@pre
    let ghost n = self.n as int;
//@before "X.syr2k("
        proof { lemma_smat(*Y, n, y@); lemma_smat(*Z, n, z@); lemma_gzeros(*X); }
//@end
//@fn file=src/solver/core/cones/psdtrianglecone.rs in="JordanAlgebra<T> for PSDTriangleCone<T>" name=inv_circ_op rules=R1,R2,unreach
//@contract
    // "Throwing an error here": the body is unreachable!() - the function never returns
    ensures false,
//@end
//@fn file=src/solver/core/cones/psdtrianglecone.rs in="SymmetricCone<T> for PSDTriangleCone<T>" name=λ_inv_circ_op rules=R1,R2,tupidx
//@contract
    requires old(self).wf(), old(x)@.len() >= old(self).numel, z@.len() >= old(self).numel,
    ensures final(self).kept(old(self)), is_linv(final(x)@, old(x)@, z@, old(self).data.lambda@, old(self).n as int),
//@pre
    let ghost n = self.n as int;
    let ghost lam = self.data.lambda@;
//@iter 1
it1
//@loop 1
        invariant
            it1.iter.end == n, n == self.n, lam == lambda@, lam.len() == n, two == f_lit(2.0f64),
            X.sq(n), Z.sq(n), forall|a: int, b: int| Z.inb(a, b) ==> #[trigger] Z.e(a, b) == sv_val(z@, a, b),
            forall|a: int, b: int| X.inb(a, b) && a < $var1 ==> #[trigger] X.e(a, b) == lic(z@, lam, a, b),
//@iter 2
it2
//@loop 2
            invariant
                it2.iter.end == n, n == self.n, $var1 < n, lam == lambda@, lam.len() == n, two == f_lit(2.0f64),
                X.sq(n), Z.sq(n), forall|a: int, b: int| Z.inb(a, b) ==> #[trigger] Z.e(a, b) == sv_val(z@, a, b),
                forall|a: int, b: int| X.inb(a, b) && (a < $var1 || (a == $var1 && b < $var2)) ==> #[trigger] X.e(a, b) == lic(z@, lam, a, b),
//@end
//@fn file=src/solver/core/cones/psdtrianglecone.rs in="impl<T> PSDTriangleCone<T>" name=logdet_barrier rules=R1,R2 ret=r
//@contract
    requires old(self).wf(), x@.len() == old(self).numel, dx@.len() == old(self).numel,
    ensures final(self).kept(old(self)), r == lb_val(old(self).n as int, x@, dx@, alpha),
//@before "match self.data.chol1.factor("
        proof { assert(q@ =~= shifted(x@, dx@, alpha)); lemma_smat(*Q, self.n as int, q@); }
//@end
//@fn file=src/solver/core/cones/psdtrianglecone.rs in="Cone<T> for PSDTriangleCone<T>" name=compute_barrier rules=R1,R2 ret=r
//@contract
    requires old(self).wf(), z@.len() == old(self).numel, dz@.len() == old(self).numel, s@.len() == old(self).numel, ds@.len() == old(self).numel,
    ensures final(self).kept(old(self)),
        // - log det mat(z + a dz) - log det mat(s + a ds)
        r == f_sub(f_sub(f_zero(), lb_val(old(self).n as int, z@, dz@, alpha)), lb_val(old(self).n as int, s@, ds@, alpha)),
//@end
//@fn file=src/solver/core/cones/psdtrianglecone.rs in="Cone<T> for PSDTriangleCone<T>" name=step_length rules=R1,R2 ret=r
//@contract
    requires old(self).wf(), dz@.len() == old(self).numel, ds@.len() == old(self).numel,
    ensures final(self).kept(old(self)),
        // C15: dz~ = W dz (N, R), ds~ = W^-T ds (T, Rinv), each through step_length_psd_component with Lambda^-1/2
        exists|d1: Seq<F>| #[trigger] is_mulW(MatrixShape::N, d1, old(self).data.workvec@, dz@, f_one(), f_zero(), gm(old(self).data.R), old(self).n as int)
            && r.0 == slpc_val(old(self).n as int, d1, old(self).data.Lambdaisqrt@, alphamax)
            && is_mulW(MatrixShape::T, final(self).data.workvec@, d1, ds@, f_one(), f_zero(), gm(old(self).data.Rinv), old(self).n as int),
        r.1 == slpc_val(old(self).n as int, final(self).data.workvec@, old(self).data.Lambdaisqrt@, alphamax),
//@end
}

// ------------------------------------------------------------------ the Nesterov-Todd scaling update: data flow
pub open spec fn us_M(n: int, s: Seq<F>, z: Seq<F>) -> GM      // L2' L1   (L1 = chol(mat s), L2 = chol(mat z))
    { mm(f_one(), MatrixShape::T, chol_of(smat(n, z)), MatrixShape::N, chol_of(smat(n, s)), f_zero(), gzeros(n, n)) }
pub open spec fn us_R0(n: int, s: Seq<F>, z: Seq<F>) -> GM     // L1 V     (V = Vt')
    { mm(f_one(), MatrixShape::N, chol_of(smat(n, s)), MatrixShape::T, svd_Vt(us_M(n, s, z)), f_zero(), gzeros(n, n)) }
pub open spec fn us_Rinv0(n: int, s: Seq<F>, z: Seq<F>) -> GM  // U' L2'
    { mm(f_one(), MatrixShape::T, svd_U(us_M(n, s, z)), MatrixShape::T, chol_of(smat(n, z)), f_zero(), gzeros(n, n)) }
pub open spec fn nt_scaled(d1: &PSDConeData<F>, n: int, s: Seq<F>, z: Seq<F>) -> bool {
    let M = us_M(n, s, z);
    &&& svd_ok(M)
    &&& gm(d1.chol1.L) == chol_of(smat(n, s)) && gm(d1.chol2.L) == chol_of(smat(n, z))
    // lambda = singular values of L2' L1,  Lambda^-1/2 = 1 / sqrt(lambda)
    &&& d1.lambda@ == svd_s(M)
    &&& forall|i: int| 0 <= i < n ==> #[trigger] d1.Lambdaisqrt@[i] == f_recip(f_sqrt(svd_s(M)[i]))
    // R = L1 V Lambda^-1/2 (columns scaled),  Rinv = Lambda^-1/2 U' L2' (rows scaled)
    &&& forall|a: int, b: int| d1.R.inb(a, b) ==> #[trigger] d1.R.e(a, b) == f_mul(us_R0(n, s, z).e(a, b), d1.Lambdaisqrt@[b])
    &&& forall|a: int, b: int| d1.Rinv.inb(a, b) ==> #[trigger] d1.Rinv.e(a, b) == f_mul(us_Rinv0(n, s, z).e(a, b), d1.Lambdaisqrt@[a])
    // Hs = triu( (R R') (x)_s (R R') ),  R R' from syrk on a zeroed work matrix
    &&& skron_cols(d1.Hs, syrk_of(f_one(), MatrixShape::N, gm(d1.R), f_zero(), gzeros(n, n)), f_sqrt2(), n, tri(n))
}
// the combined-step shift: entry (a, b) of  W^-T ds o W dz  with -sigma*mu added on the diagonal positions
pub open spec fn shift_entry(n: int, s1: Seq<F>, z1: Seq<F>, sigmamu: F, a: int, b: int) -> F {
    let c = msv_sym(circ_mat(n, s1, z1), a, b);
    if a == b { f_add(c, f_neg(sigmamu)) } else { c }
}
impl PSDTriangleCone<F> {
//@fn file=src/solver/core/cones/psdtrianglecone.rs in="Cone<T> for PSDTriangleCone<T>" name=update_scaling rules=R1,R2,R13e ret=r
//@contract
    requires old(self).wf(), s@.len() == old(self).numel, z@.len() == old(self).numel,
    ensures final(self).wf(), final(self).n == old(self).n, final(self).numel == old(self).numel,
        s@.len() == 0 ==> r && final(self).data.same_scaling(&*old(self).data),
        // C13 (orchestration): both Cholesky factorisations must succeed, otherwise false ...
        s@.len() > 0 ==> r == (chol_ok(smat(old(self).n as int, s@)) && chol_ok(smat(old(self).n as int, z@))),
        // ... and the previous scaling is still in place (no half-updated R / Rinv / Hs / lambda)
        s@.len() > 0 && !r ==> final(self).data.same_scaling(&*old(self).data),
        s@.len() > 0 && r ==> nt_scaled(&*final(self).data, old(self).n as int, s@, z@) && lower_kept(final(self).data.Hs, old(self).data.Hs),
//@pre
    let ghost n = self.n as int;
    proof { lemma_tri_small(n); }
//@before "let c1 ="
    proof { lemma_smat(*S, n, s@); lemma_smat(*Z, n, z@); }
//@before "RRt.syrk("
    proof { lemma_gzeros(*RRt); }
//@end
//@fn file=src/solver/core/cones/symmetric_common.rs in="SymmetricConeUtils<T> for C" name=_combined_ds_shift_symmetric rules=R1,R2
//@contract
    requires old(self).wf(), old(shift)@.len() == old(self).numel, old(step_z)@.len() == old(self).numel, old(step_s)@.len() == old(self).numel,
    ensures final(self).kept(old(self)), final(shift)@.len() == old(shift)@.len(),
        // step_z <- W step_z,  step_s <- W^-T step_s,  shift = step_s o step_z - sigma*mu e
        is_mulW(MatrixShape::N, final(step_z)@, old(step_z)@, old(step_z)@, f_one(), f_zero(), gm(old(self).data.R), old(self).n as int),
        is_mulW(MatrixShape::T, final(step_s)@, old(step_s)@, old(step_s)@, f_one(), f_zero(), gm(old(self).data.Rinv), old(self).n as int),
        forall|a: int, b: int| #[trigger] tslot(a, b) && 0 <= a <= b < old(self).n ==>
            final(shift)@[tri(b) + a] == shift_entry(old(self).n as int, final(step_s)@, final(step_z)@, sigmamu, a, b),
//@end
//@fn file=src/solver/core/cones/psdtrianglecone.rs in="Cone<T> for PSDTriangleCone<T>" name=combined_ds_shift rules=R1,R2
//@contract
    requires old(self).wf(), old(shift)@.len() == old(self).numel, old(step_z)@.len() == old(self).numel, old(step_s)@.len() == old(self).numel,
    ensures final(self).kept(old(self)), final(shift)@.len() == old(shift)@.len(),
        is_mulW(MatrixShape::N, final(step_z)@, old(step_z)@, old(step_z)@, f_one(), f_zero(), gm(old(self).data.R), old(self).n as int),
        is_mulW(MatrixShape::T, final(step_s)@, old(step_s)@, old(step_s)@, f_one(), f_zero(), gm(old(self).data.Rinv), old(self).n as int),
        forall|a: int, b: int| #[trigger] tslot(a, b) && 0 <= a <= b < old(self).n ==>
            final(shift)@[tri(b) + a] == shift_entry(old(self).n as int, final(step_s)@, final(step_z)@, sigmamu, a, b),
//@end
//@fn file=src/solver/core/cones/symmetric_common.rs in="SymmetricConeUtils<T> for C" name=_Δs_from_Δz_offset_symmetric rules=R1,R2
//@contract
    requires old(self).wf(), old(out)@.len() >= old(self).numel, ds@.len() >= old(self).numel, old(work)@.len() >= old(self).numel,
    ensures final(self).kept(old(self)),
        // work = lambda \ ds,  out = W' work
        is_linv(final(work)@, old(work)@, ds@, old(self).data.lambda@, old(self).n as int),
        is_mulW(MatrixShape::T, final(out)@, old(out)@, final(work)@, f_one(), f_zero(), gm(old(self).data.R), old(self).n as int),
//@end
//@fn file=src/solver/core/cones/psdtrianglecone.rs in="Cone<T> for PSDTriangleCone<T>" name=Δs_from_Δz_offset rules=R1,R2
//@contract
    requires old(self).wf(), old(out)@.len() >= old(self).numel, ds@.len() >= old(self).numel, old(work)@.len() >= old(self).numel,
    ensures final(self).kept(old(self)),
        is_linv(final(work)@, old(work)@, ds@, old(self).data.lambda@, old(self).n as int),
        is_mulW(MatrixShape::T, final(out)@, old(out)@, final(work)@, f_one(), f_zero(), gm(old(self).data.R), old(self).n as int),
//@end
}

// ================================================================== E. Level 2 (F-real): what the diagonal-position arithmetic means for the margins
// HYPOTHESES (not axioms: explicit `requires` of the lemmas) about the eigenvalue symbol `eig_of`:
//   eig_shift_hyp:  B = A + al I (entry-wise, real reading)  ==>  eig(B)_i = eig(A)_i + al for every i
//   eig_ident_hyp:  A = I (entry-wise, real reading)          ==>  eig(A)_i = 1 for every i
pub open spec fn shifted_by(A: GM, B: GM, n: int, al: real) -> bool {
    A.r == n && A.c == n && B.r == n && B.c == n
    && forall|a: int, b: int| 0 <= a < n && 0 <= b < n ==> #[trigger] B.e(a, b).v() == A.e(a, b).v() + (if a == b { al } else { 0real })
}
pub open spec fn eig_shift_hyp() -> bool {
    forall|A: GM, B: GM, n: int, al: real| #[trigger] shifted_by(A, B, n, al) ==>
        eig_of(B).len() == eig_of(A).len() && forall|i: int| 0 <= i < eig_of(A).len() ==> #[trigger] eig_of(B)[i].v() == eig_of(A)[i].v() + al
}
pub open spec fn is_ident_real(A: GM, n: int) -> bool {
    A.r == n && A.c == n && forall|a: int, b: int| 0 <= a < n && 0 <= b < n ==> #[trigger] A.e(a, b).v() == (if a == b { 1real } else { 0real })
}
pub open spec fn eig_ident_hyp() -> bool {
    forall|A: GM, n: int| #[trigger] is_ident_real(A, n) ==> forall|i: int| 0 <= i < eig_of(A).len() ==> #[trigger] eig_of(A)[i].v() == 1real
}
pub proof fn lemma_smat_entry(n: int, x: Seq<F>, a: int, b: int) requires 0 <= a < n, 0 <= b < n ensures smat(n, x).e(a, b) == sv_val(x, a, b)
{
    lemma_divmod(n, a, b); lemma_lin(n, n, a, b);
}
// C07 / C15: scaled_unit_shift (its postcondition is the first two hypotheses) raises every eigenvalue of mat(z), hence the margin, by alpha
pub proof fn lemma_unit_shift_margin(n: int, z0: Seq<F>, z1: Seq<F>, alpha: F)
    requires n >= 0,
        forall|a: int, b: int| #[trigger] tslot(a, b) && 0 <= a <= b < n ==> z1[tri(b) + a] == (if a == b { f_add(z0[tri(b) + a], alpha) } else { z0[tri(b) + a] }),
        eig_shift_hyp(),
    ensures eig_of(smat(n, z1)).len() == eig_of(smat(n, z0)).len(),
        forall|i: int| 0 <= i < eig_of(smat(n, z0)).len() ==> #[trigger] eig_of(smat(n, z1))[i].v() == eig_of(smat(n, z0))[i].v() + alpha.v(),
{
    broadcast use real_arith;
    let A = smat(n, z0); let B = smat(n, z1);
    assert forall|a: int, b: int| 0 <= a < n && 0 <= b < n implies #[trigger] B.e(a, b).v() == A.e(a, b).v() + (if a == b { alpha.v() } else { 0real }) by {
        lemma_smat_entry(n, z0, a, b); lemma_smat_entry(n, z1, a, b);
        assert(tslot(imin(a, b), imax(a, b)));
    }
    assert(shifted_by(A, B, n, alpha.v()));
}
// C07: the unit_initialization point (its postcondition is the hypothesis) is svec(I): every eigenvalue, hence the margin, is 1
pub proof fn lemma_unit_init_margin(n: int, s: Seq<F>)
    requires n >= 0,
        forall|a: int, b: int| #[trigger] tslot(a, b) && 0 <= a <= b < n ==> s[tri(b) + a] == (if a == b { f_add(f_zero(), f_one()) } else { f_zero() }),
        eig_ident_hyp(),
    ensures forall|i: int| 0 <= i < eig_of(smat(n, s)).len() ==> #[trigger] eig_of(smat(n, s))[i].v() == 1real,
{
    broadcast use real_arith;
    let A = smat(n, s);
    assert forall|a: int, b: int| 0 <= a < n && 0 <= b < n implies #[trigger] A.e(a, b).v() == (if a == b { 1real } else { 0real }) by {
        lemma_smat_entry(n, s, a, b);
        assert(tslot(imin(a, b), imax(a, b)));
        if a != b {
            let h = f_frac_1_sqrt_2().v();
            assert(0real * h == 0real) by(nonlinear_arith);
        }
    }
    assert(is_ident_real(A, n));
}
// affine_ds writes svec(diag(lambda_a^2)): entry (a, a) of mat(ds) is lambda_a^2 (real reading), off-diagonal entries are 0
pub proof fn lemma_affine_ds_real(n: int, ds: Seq<F>, lam: Seq<F>, a: int, b: int)
    requires 0 <= a < n, 0 <= b < n,
        forall|p: int, q: int| #[trigger] tslot(p, q) && 0 <= p <= q < n ==> ds[tri(q) + p] == (if p == q { f_mul(lam[p], lam[p]) } else { f_zero() }),
    ensures smat(n, ds).e(a, b).v() == (if a == b { lam[a].v() * lam[a].v() } else { 0real }),
{
    broadcast use real_arith;
    lemma_smat_entry(n, ds, a, b);
    assert(tslot(imin(a, b), imax(a, b)));
    if a != b { let h = f_frac_1_sqrt_2().v(); assert(0real * h == 0real) by(nonlinear_arith); }
}

} // verus!
fn main() {}
