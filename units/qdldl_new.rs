// unit `qdldl_new` : construction / refactor plumbing of the sparse LDL' engine (C12) -- `QDLDLFactorisation::new`, `_qdldl_new`, `refactor`,
// `positive_inertia`, `regularize_count`, `nnzA`, `nnzL`, `impl Default for QDLDLSettings`, `permute` (generic), all extracted from
// src/qdldl/qdldl.rs; `CscMatrix::{new, spalloc, nnz, nrows}` (units/inc/csc_alloc.rs).  Unbounded (Verus), floats uninterpreted (F-opaque).
//
// PROVED (real text, extracted)
//  QDLDLFactorisation::new   Err(IncompatibleDimension / NotUpperTriangular / EmptyColumn) exactly for the inputs check_structure rejects (its proved contract,
//                 in its order); otherwise the verdict of _qdldl_new.
//  _qdldl_new     * Err(InvalidPermutation) <==> a permutation vector was supplied and it is not a permutation of 0..n (contract of _invperm);
//                   the only other error is ZeroPivot, only from a numeric factorisation (contract of _factor); errors are propagated, never swallowed;
//                 * every callee precondition: psym_pre of permute_symmetric from (check_structure's verdict + the inverse permutation maps into 0..n:
//                   lemma_perm_inverse, pigeonhole), in_range of `permute` (get_unchecked!) for the sign vector, the precondition of
//                   QDLDLWorkspace::new (the permuted copy is again an n x n upper-triangular pattern: lemma_psym_triu -- every slot of a column of the
//                   permuted matrix is the image of an entry, lemma_slot_has_entry), and the SIZE precondition of _factor / _factor_inner:
//                   L is allocated with exactly psum(Lnz, n) slots (rule R30i: `Lnz.iter().sum()` -> loop; its no-overflow obligation is discharged
//                   from Lnz[c] = cnt(c) <= n and n * n <= usize::MAX, lemma_psum_bound);
//                 * on Ok(f): qf_built(f, Ain, opts) =
//                     fact_ok(f)  (struct invariant, see below) and f.workspace.triuA.n == n, f.is_symbolic == opts.logical,
//                     perm / iperm have length n, perm is a permutation, iperm[perm[i]] == i AND perm[iperm[q]] == q; a supplied perm is stored as given;
//                     the copy that is factored is the symmetric permutation of Ain BY f.iperm: entry k of Ain sits in slot AtoPAPt[k] of column
//                     max(ip r, ip c) with row min(ip r, ip c) and its value; AtoPAPt is in range and injective (a2p_ok: what update_values /
//                     scale_values / offset_values of unit qdldl_kernels and q_map_ok of unit kkt_solve rely on);
//                     n > 0 ==> l_complete(L)  (so `solve` is memory safe: l_wf + l_strict of unit qdldl_kernels), L has exactly psum(Lnz, n) slots;
//                     D, Dinv of length n; Dsigns = the supplied signs permuted by perm, or all +1; the regularisation parameters of opts.
//  refactor       from fact_ok: NUMERIC _factor on the stored workspace (is_symbolic := false, logical = false is what is passed on); fact_ok is kept,
//                 ws_static_same (matrix, tree, counts, entry map, signs, parameters untouched), perm / iperm untouched; the Result of _factor is the
//                 Result of refactor: Ok ==> (n > 0 ==> l_complete(L)), Err ==> ZeroPivot.
//  positive_inertia / regularize_count / nnzA / nnzL    the workspace fields / the number of stored entries of triuA / L.colptr[n].
//  Default for QDLDLSettings    the #[builder(default = ..)] values (through the ASSUMED builder stand-in).
//  permute        (second extraction, generic element type: it is used at i8 here) x[i] = b[p[i]]; the unchecked read is in range.
//
// ASSUMED -- callee contracts PROVED IN ANOTHER UNIT, text copied verbatim (external_body stand-ins):
//  check_structure (unit csc_core), _invperm (unit qdldl_perm), permute_symmetric (unit csc_utils), QDLDLWorkspace::new and _factor (unit qdldl_factor).
//  The spec vocabulary of those contracts (triu_wf/triu_o, on_path/in_v/cnt, etree_wf, lnz_exact, psum, lp_ok, l_wf/l_strict/l_complete, ws_ok,
//  ws_static_same; is_perm; below/count_row/tpos/tgt/tgseq/colof/psym_pre; colptr_wf/in_col/is_upper/no_empty_col; in_range) is copied with them;
//  the lemmas about it that are used here (lemma_tpos_range, lemma_tpos_distinct, lemma_tg_bound, ...) are re-proved here, not assumed.
// ASSUMED -- not proved anywhere:
//  get_amd_ordering (external crate `amd`): returns (perm, iperm, info) with perm a permutation of 0..n and iperm[perm[i]] == i, and does not
//    panic (its `unwrap()`) for a well-formed square pattern.  NOTE: unlike a user-supplied vector, AMD's result does NOT go through _invperm.
//  QDLDLSettingsBuilder (derive_builder-generated code; same stand-in as in unit kkt_solve: default() = no field set, build() = Ok with the
//    #[builder(default = ..)] values).  prelude/float_opaque.rs, prelude/std_assumed.rs; vstd's specs of vec!, Option::unwrap_or_default, slice::Iter.
// REQUIRES taken as well-formedness (each is what the real call site -- the QDLDL adaptor of the KKT solver -- establishes):
//  colptr_wf(Ain) (CscMatrix invariant);  n * n <= usize::MAX and 3 * n <= usize::MAX (nnz(L) <= n(n-1)/2 is summed in usize BEFORE anything is
//  allocated; nothing in the code checks it);  a supplied perm has length n;  a supplied Dsigns has length >= n.
// OBSERVATIONS (true of the code; the last two preconditions are NOT checked by the code):
//  O10  a user `perm` whose LENGTH differs from n is not reported as InvalidPermutation: _invperm only tests that it is a permutation of
//       0..perm.len(); a shorter one panics in _permute_symmetric_inner (iperm[colA] out of bounds), a longer one panics there or behaves as its prefix.
//  O11  a user `Dsigns` shorter than n is read through `get_unchecked` in `permute(&mut Dsigns, &ds, &perm)`: out-of-bounds read in unsafe code
//       reachable from the safe public API `QDLDLFactorisation::new` (the debug_assert in `permute` tests x.len(), not b.len()).
//  O12  `_factor`'s contract (unit qdldl_factor) says nothing about L for n == 0, so l_complete is claimed for n > 0 only.
// DROPPED: the debug_assert! of permute (as in qdldl_kernels).  NOT under contract here: get_amd_ordering's body; _lsolve_safe / _ltsolve_safe are
//  in unit qdldl_safe (F-real).
// Also proved: lemma_solve_pre -- fact_ok + l_complete (what `new` / `refactor` deliver on Ok) give the precondition of `QDLDLFactorisation::solve`
//  exactly as unit qdldl_kernels states it, and the hypotheses of its functional clause.  The bounds-checked solves are in unit qdldl_safe.
// New rewrite rules (tools/extract.py, additive): tupcall (`(a, b, _) = f(..);` -> `{ let (t0, t1, _) = f(..); a = t0; b = t1; }`, the desugaring of
//  destructuring assignment in the Rust reference), R30i (`X.iter().sum()` -> summation loop at type usize, overflow check kept as an obligation).
// MEASURED (verus --rlimit 50 = 150 M units): 50 obligations, 5 s; heaviest _qdldl_new 1.1 M (0.7 %), permute 0.43 M, _invperm 0.28 M; seeds 1..6 stable.
// MUTATION ROUND (scratch copy, one wrong edit at a time, 27 edits): 26 fail a named obligation -- L allocated with sum-1 (underflow + _factor
//  precondition) / with Ain.nnz() (precondition); perm not validated (clone) and _invperm's error swallowed (psym precondition, bad_perm <==> Err);
//  perm / iperm swapped in the struct, AMD's pair swapped, permute_symmetric(.., &perm) (is_sym_perm_of BY f.iperm / lemma_ordering_ok);
//  `logical = false` always in _qdldl_new (Err ZeroPivot ==> !logical), is_symbolic: false; check_structure's verdict ignored; Dsigns permuted with iperm /
//  not permuted / initialised -1; eps and delta swapped; D of length n+1, Dinv of length sumLnz, L as (n, n+1); sum over etree (loop invariant);
//  zeroed AtoPAPt; refactor: Result ignored (`let _ =` + Ok(())), is_symbolic = true; accessors returning the wrong field; _invperm `<=` / duplicates
//  accepted; permute reading b[0].
//  FORMER SURVIVOR (now caught, see FOLLOW-UP below): refactor passing the literal `true` as `logical` to _factor (a symbolic refactorisation behind is_symbolic == false).  Nothing in
//  _factor's contract (unit qdldl_factor) distinguishes a numeric from a logical run that returns Ok -- floats are uninterpreted and no clause such as
//  `!logical && Ok ==> Dinv[k] == f_recip(D[k])` is stated there.  Open item for unit qdldl_factor (provable in _factor_inner's column loop).
// FOLLOW-UP (qdldl_factor strengthened): the stand-in of _factor carries the new clauses verbatim (numeric + Ok: pivots_ok and exists pre. reg_ok;
//  logical: Ok, placeholders 1, counters 0; vocabulary pivots_ok / pos_cnt / reg_ok / reg_val / reg_cnt / perturbed / f_from_i8 copied, proved in
//  qdldl_factor).  They are lifted to the public API: numeric_ok(f) on Ok of `refactor` and of a numeric `new` / `_qdldl_new`, logical_ok(f) for a
//  logical one (which cannot fail for a valid ordering); positive_inertia() == pos_cnt(D, n) and regularize_count() == reg_cnt(pre, ..) under numeric_ok.
//  Re-run mutations: refactor passing literal `true` -> postcondition `r is Ok ==> numeric_ok` fails; positive_inertia() returning regularize_count
//  -> postcondition fails; _qdldl_new passing `!opts.logical` -> postconditions fail.
use vstd::prelude::*;
use vstd::set_lib::*;
verus! {
//@include prelude/float_opaque.rs
//@include prelude/std_assumed.rs
//@enum file=src/qdldl/qdldl.rs name=QDLDLError
//@const file=src/qdldl/qdldl.rs name=QDLDL_UNKNOWN
//@struct file=src/algebra/csc/core.rs name=CscMatrix
//@struct file=src/qdldl/qdldl.rs name=QDLDLWorkspace
//@struct file=src/qdldl/qdldl.rs name=QDLDLFactorisation rules=R12
//@struct file=src/qdldl/qdldl.rs name=QDLDLSettings rules=R12

// =====================================================================================================================
// spec vocabulary of unit qdldl_factor (copied verbatim: the contracts of QDLDLWorkspace::new / _factor are stated in it)
// =====================================================================================================================
pub open spec fn triu_wf(n: usize, ap: Seq<usize>, ai: Seq<usize>) -> bool {
    &&& ap.len() == n + 1
    &&& ap[0] == 0
    &&& ap[n as int] == ai.len()
    &&& forall|c: int, d: int| 0 <= c <= d <= n ==> ap[c] <= ap[d]
    &&& forall|c: int, k: int| #![trigger ap[c], ai[k]] 0 <= c < n && ap[c] <= k < ap[c + 1] ==> ai[k] <= c
}
#[verifier::opaque]
pub open spec fn triu_o(n: usize, ap: Seq<usize>, ai: Seq<usize>) -> bool { triu_wf(n, ap, ai) }
pub proof fn lemma_triu_hide(n: usize, ap: Seq<usize>, ai: Seq<usize>)
    requires triu_wf(n, ap, ai),
    ensures triu_o(n, ap, ai),
{ reveal(triu_o); }
pub open spec fn on_path(etree: Seq<usize>, j: int, i: int, c: int) -> bool
    decreases j - i
{
    0 <= i < j && i < etree.len() && (c == i || (i < etree[i] < j && on_path(etree, j, etree[i] as int, c)))
}
pub open spec fn in_v_at(ap: Seq<usize>, ai: Seq<usize>, etree: Seq<usize>, j: int, c: int, p: int) -> bool {
    ap[j] <= p < ap[j + 1] && ai[p] < j && on_path(etree, j, ai[p] as int, c)
}
pub open spec fn in_v(ap: Seq<usize>, ai: Seq<usize>, etree: Seq<usize>, j: int, c: int) -> bool {
    exists|p: int| #[trigger] in_v_at(ap, ai, etree, j, c, p)
}
pub open spec fn cnt(ap: Seq<usize>, ai: Seq<usize>, etree: Seq<usize>, c: int, k: int) -> int
    decreases k
{
    if k <= 0 { 0 } else { cnt(ap, ai, etree, c, k - 1) + (if in_v(ap, ai, etree, k - 1, c) { 1int } else { 0int }) }
}
pub proof fn lemma_cnt_range(ap: Seq<usize>, ai: Seq<usize>, etree: Seq<usize>, c: int, k: int)
    ensures 0 <= cnt(ap, ai, etree, c, k), k >= 0 ==> cnt(ap, ai, etree, c, k) <= k,
    decreases k,
{
    if k > 0 { lemma_cnt_range(ap, ai, etree, c, k - 1); }
}
pub open spec fn etree_wf(n: int, etree: Seq<usize>) -> bool {
    etree.len() == n && forall|i: int| 0 <= i < n ==> etree[i] == QDLDL_UNKNOWN || i < #[trigger] etree[i] < n
}
pub open spec fn lnz_exact(n: int, ap: Seq<usize>, ai: Seq<usize>, etree: Seq<usize>, lnz: Seq<usize>, k: int) -> bool {
    lnz.len() == n && forall|c: int| 0 <= c < n ==> #[trigger] lnz[c] == cnt(ap, ai, etree, c, k)
}
pub open spec fn psum(l: Seq<usize>, c: int) -> int
    decreases c
{
    if c <= 0 { 0 } else { psum(l, c - 1) + l[c - 1] }
}
pub open spec fn lp_ok(n: int, lp: Seq<usize>, lnz: Seq<usize>, cap: int) -> bool {
    &&& lp.len() == n + 1 && lnz.len() == n
    &&& forall|c: int| 0 <= c <= n ==> #[trigger] lp[c] == psum(lnz, c)
    &&& lp[n] <= cap
}
pub open spec fn l_wf(n: int, lp: Seq<usize>, li: Seq<usize>, lx: Seq<F>) -> bool {
    &&& lp.len() == n + 1
    &&& forall|c: int, d: int| 0 <= c <= d <= n ==> lp[c] <= lp[d]
    &&& lp[n] <= li.len() && lp[n] <= lx.len()
    &&& forall|k: int| 0 <= k < lp[n] ==> #[trigger] li[k] < n
}
#[verifier::opaque]
pub open spec fn l_wf_if_rows_ok(n: int, li0: Seq<usize>, lp: Seq<usize>, li: Seq<usize>, lx: Seq<F>) -> bool {
    (forall|j: int| 0 <= j < li0.len() ==> #[trigger] li0[j] < n) ==> l_wf(n, lp, li, lx)
}
pub open spec fn l_in_col(n: int, lp: Seq<usize>, c: int, j: int) -> bool { 0 <= c < n && lp[c] <= j < lp[c + 1] }
pub open spec fn l_strict(n: int, lp: Seq<usize>, li: Seq<usize>) -> bool {
    forall|c: int, j: int| #[trigger] l_in_col(n, lp, c, j) ==> li[j] > c
}
#[verifier::opaque]
pub open spec fn l_complete(n: int, lp: Seq<usize>, li: Seq<usize>, lx: Seq<F>) -> bool { l_wf(n, lp, li, lx) && l_strict(n, lp, li) }
// the workspace belongs to its matrix: symbolic factorisation (tree, column counts) of triuA's pattern, work arrays of the right sizes
pub open spec fn ws_ok(w: QDLDLWorkspace<F>) -> bool {
    let n = w.triuA.n;
    &&& w.triuA.m == n
    &&& triu_o(n, w.triuA.colptr@, w.triuA.rowval@) && w.triuA.nzval@.len() == w.triuA.rowval@.len()
    &&& etree_wf(n as int, w.etree@) && lnz_exact(n as int, w.triuA.colptr@, w.triuA.rowval@, w.etree@, w.Lnz@, n as int)
    &&& w.iwork@.len() == 3 * n && w.bwork@.len() == n && w.fwork@.len() == n && w.Dsigns@.len() == n
}
// everything of the workspace that a factorisation must not touch
pub open spec fn ws_static_same(w0: QDLDLWorkspace<F>, w1: QDLDLWorkspace<F>) -> bool {
    w1.triuA == w0.triuA && w1.etree == w0.etree && w1.Lnz == w0.Lnz && w1.AtoPAPt == w0.AtoPAPt && w1.Dsigns == w0.Dsigns
        && w1.regularize_enable == w0.regularize_enable && w1.regularize_eps == w0.regularize_eps && w1.regularize_delta == w0.regularize_delta
}

// ---- the pivots of a numeric factorisation: vocabulary of unit qdldl_factor, copied verbatim (the clauses stated in it are PROVED in qdldl_factor)
pub uninterp spec fn f_from_i8(a: i8) -> F;
// the signed pivot p falls below the regularisation threshold
pub open spec fn perturbed(p: F, s: i8, enable: bool, eps: F) -> bool { enable && f_lt(f_mul(p, f_from_i8(s)), eps) }
// the regularisation rule: a perturbed pivot is replaced by delta * sign, every other pivot is kept
pub open spec fn reg_val(p: F, s: i8, enable: bool, eps: F, delta: F) -> F { if perturbed(p, s, enable, eps) { f_mul(delta, f_from_i8(s)) } else { p } }
// number of positive pivots among the first k
pub open spec fn pos_cnt(d: Seq<F>, k: int) -> int
    decreases k
{
    if k <= 0 { 0 } else { pos_cnt(d, k - 1) + (if f_lt(f_zero(), d[k - 1]) { 1int } else { 0int }) }
}
// number of perturbed pivots among the first k
pub open spec fn reg_cnt(pre: Seq<F>, ds: Seq<i8>, enable: bool, eps: F, k: int) -> int
    decreases k
{
    if k <= 0 { 0 } else { reg_cnt(pre, ds, enable, eps, k - 1) + (if perturbed(pre[k - 1], ds[k - 1], enable, eps) { 1int } else { 0int }) }
}
// the first k pivots passed the zero test, Dinv holds their reciprocals, count = number of positive ones
pub open spec fn pivots_ok(k: int, d: Seq<F>, dinv: Seq<F>, count: int) -> bool {
    &&& forall|j: int| 0 <= j < k ==> #[trigger] dinv[j] == f_recip(d[j])
    &&& forall|j: int| 0 <= j < k ==> !f_eq(#[trigger] d[j], f_zero())
    &&& count == pos_cnt(d, k)
}
// pre = the pivots as computed, before the regularisation step: D is pre with exactly the perturbed ones replaced, regcount counts them
pub open spec fn reg_ok(k: int, pre: Seq<F>, d: Seq<F>, ds: Seq<i8>, enable: bool, eps: F, delta: F, regcount: int) -> bool {
    &&& forall|j: int| 0 <= j < k ==> #[trigger] d[j] == reg_val(pre[j], ds[j], enable, eps, delta)
    &&& regcount == reg_cnt(pre, ds, enable, eps, k)
}
// ---- ASSUMED here, PROVED in unit qdldl_factor (contract text verbatim) ----
impl QDLDLWorkspace<F> {
    #[verifier::external_body]
    pub fn new(triuA: CscMatrix<F>, AtoPAPt: Vec<usize>, Dsigns: Vec<i8>, regularize_enable: bool, regularize_eps: F, regularize_delta: F) -> (r: Result<Self, QDLDLError>)
        requires
            // what permute_symmetric / check_structure deliver: a square upper triangular pattern
            triuA.m == triuA.n, triu_o(triuA.n, triuA.colptr@, triuA.rowval@), triuA.nzval@.len() == triuA.rowval@.len(),
            3 * triuA.n <= usize::MAX, Dsigns@.len() == triuA.n,
        ensures
            r matches Ok(w) && ws_ok(w) && w.triuA == triuA && w.AtoPAPt == AtoPAPt && w.Dsigns == Dsigns
                && w.regularize_enable == regularize_enable && w.regularize_eps == regularize_eps && w.regularize_delta == regularize_delta
                && w.regularize_count == 0 && w.positive_inertia == 0,
    { unimplemented!() }
}
#[verifier::external_body]
fn _factor(L: &mut CscMatrix<F>, D: &mut [F], Dinv: &mut [F], workspace: &mut QDLDLWorkspace<F>, logical: bool) -> (r: Result<(), QDLDLError>)
    requires
        ws_ok(*old(workspace)),
        // L as allocated by _qdldl_new: spalloc((n, n), sum(Lnz)); D, Dinv of length n
        old(L).colptr@.len() == old(workspace).triuA.n + 1, old(L).rowval@.len() == old(L).nzval@.len(),
        psum(old(workspace).Lnz@, old(workspace).triuA.n as int) <= old(L).rowval@.len(),
        old(D)@.len() == old(workspace).triuA.n, old(Dinv)@.len() == old(workspace).triuA.n,
    ensures
        // the workspace stays fit for the next refactorisation, its matrix / tree / counts / settings are untouched
        ws_ok(*final(workspace)), ws_static_same(*old(workspace), *final(workspace)),
        final(L).m == old(L).m, final(L).n == old(L).n,
        final(L).colptr@.len() == old(L).colptr@.len(), final(L).rowval@.len() == old(L).rowval@.len(), final(L).nzval@.len() == old(L).nzval@.len(),
        final(D)@.len() == old(D)@.len(), final(Dinv)@.len() == old(Dinv)@.len(),
        // errors of the engine are passed on, never swallowed: Ok only if _factor_inner returned Ok
        match r { Ok(_) => final(workspace).positive_inertia <= old(workspace).triuA.n, Err(e) => e == QDLDLError::ZeroPivot && !logical },
        final(workspace).regularize_count <= old(workspace).triuA.n,
        old(workspace).triuA.n > 0 ==> lp_ok(old(workspace).triuA.n as int, final(L).colptr@, old(workspace).Lnz@, old(L).rowval@.len() as int),
        old(workspace).triuA.n > 0 ==> l_wf_if_rows_ok(old(workspace).triuA.n as int, old(L).rowval@, final(L).colptr@, final(L).rowval@, final(L).nzval@),
        // C12: a factorisation that reports success has filled every column of L completely with rows strictly below the diagonal and
        // inside the matrix: l_wf and l_strict (folded in l_complete) are exactly what QDLDLFactorisation::solve / _solve require
        r is Ok && old(workspace).triuA.n > 0 ==> l_complete(old(workspace).triuA.n as int, final(L).colptr@, final(L).rowval@, final(L).nzval@),
        // C12, numeric mode and Ok: no zero pivot, Dinv = 1/D entry by entry, the recorded positive inertia is the number of positive pivots,
        // pivots are perturbed exactly when their signed value is below the threshold and regularize_count counts them (see _factor_inner)
        !logical && r is Ok ==> pivots_ok(old(workspace).triuA.n as int, final(D)@, final(Dinv)@, final(workspace).positive_inertia as int)
            && exists|pre: Seq<F>| pre.len() == old(workspace).triuA.n
                && #[trigger] reg_ok(old(workspace).triuA.n as int, pre, final(D)@, old(workspace).Dsigns@, old(workspace).regularize_enable,
                    old(workspace).regularize_eps, old(workspace).regularize_delta, final(workspace).regularize_count as int),
        // logical mode: always Ok, every numeric entry of L and Dinv is the placeholder 1, nothing is counted
        logical ==> r is Ok && final(workspace).positive_inertia == 0 && final(workspace).regularize_count == 0
            && (forall|k: int| 0 <= k < final(Dinv)@.len() ==> #[trigger] final(Dinv)@[k] == f_one())
            && (forall|j: int| 0 <= j < final(L).nzval@.len() ==> #[trigger] final(L).nzval@[j] == f_one()),
{ unimplemented!() }

// =====================================================================================================================
// permutations: vocabulary of unit qdldl_perm (is_perm) and qdldl_kernels (in_range); _invperm is PROVED here a second time (contract and
// annotations of unit qdldl_perm, plus the error kind, which the contract there leaves open)
// =====================================================================================================================
pub open spec fn is_perm(p: Seq<usize>) -> bool {
    &&& forall|i: int| 0 <= i < p.len() ==> #[trigger] p[i] < p.len()
    &&& forall|i: int, j: int| 0 <= i < j < p.len() ==> #[trigger] p[i] != #[trigger] p[j]
}
pub open spec fn in_range(p: Seq<usize>, n: int) -> bool { forall|i: int| 0 <= i < p.len() ==> #[trigger] p[i] < n }
//@fn file=src/qdldl/qdldl.rs name=_invperm rules=R3 ret=r
//@contract
    requires p@.len() < usize::MAX,
    ensures
        r is Ok <==> is_perm(p@),
        r matches Ok(b) ==> b@.len() == p@.len() && forall|i: int| 0 <= i < p@.len() ==> #[trigger] b@[p@[i] as int] == i,
        // (added to the contract of unit qdldl_perm: the error kind)
        r matches Err(e) ==> e == QDLDLError::InvalidPermutation,
//@iter 1
it
//@loop 1
        invariant
            i_ctr == it.index@,
            it.seq().len() == p@.len(),
            forall|k: int| 0 <= k < it.seq().len() ==> *(#[trigger] it.seq()[k]) == p@[k],
            b@.len() == p@.len(), p@.len() < usize::MAX,
            forall|k: int| 0 <= k < i_ctr ==> #[trigger] p@[k] < p@.len(),
            forall|k: int| 0 <= k < i_ctr ==> #[trigger] b@[p@[k] as int] == k,
            forall|v: int| 0 <= v < b@.len() && #[trigger] b@[v] != usize::MAX ==> b@[v] < i_ctr && p@[b@[v] as int] == v,
//@before "return Err(QDLDLError::InvalidPermutation)"
            proof {
                // witness that p is not a permutation: out of range, or the slot was taken by an earlier index
                if *j < p.len() {
                    let k0 = b@[*j as int] as int;
                    assert(p@[k0] == p@[i as int]);
                    assert(k0 < i);
                }
                assert(!is_perm(p@));
            }
//@before "Ok(b)"
    proof {
        // all slots were filled by distinct indices => p is injective and in range
        assert(i_ctr == p@.len());
        assert(is_perm(p@)) by {
            assert forall|i: int, j: int| 0 <= i < j < p@.len() implies #[trigger] p@[i] != #[trigger] p@[j] by {
                if p@[i] == p@[j] { assert(b@[p@[i] as int] == i); assert(b@[p@[j] as int] == j); }
            }
        }
    }
//@end

// ASSUMED, not proved anywhere (external crate `amd`): a fill-reducing ordering IS an ordering
pub struct AmdInfo { pub _p: u8 }
#[verifier::external_body]
pub fn get_amd_ordering(A: &CscMatrix<F>, amd_dense_scale: f64) -> (r: (Vec<usize>, Vec<usize>, AmdInfo))
    requires colptr_wf(*A), A.m == A.n,
    ensures
        r.0@.len() == A.n, r.1@.len() == A.n, is_perm(r.0@),
        forall|i: int| 0 <= i < A.n ==> #[trigger] r.1@[r.0@[i] as int] == i,
{ unimplemented!() }

// a permutation of 0..n hits every value (pigeonhole)
pub proof fn lemma_perm_onto(p: Seq<usize>, q: int)
    requires is_perm(p), 0 <= q < p.len(),
    ensures exists|i: int| 0 <= i < p.len() && #[trigger] p[i] == q,
{
    let n = p.len() as int;
    let s = Seq::new(p.len(), |i: int| p[i] as int);
    assert(s.no_duplicates()) by {
        assert forall|i: int, j: int| 0 <= i < s.len() && 0 <= j < s.len() && i != j implies s[i] != s[j] by {
            if i < j { assert(p[i] != p[j]); } else { assert(p[j] != p[i]); }
        }
    }
    s.unique_seq_to_set();
    let r = set_int_range(0, n);
    lemma_int_range(0, n);
    assert(s.to_set().subset_of(r)) by {
        assert forall|v: int| s.to_set().contains(v) implies #[trigger] r.contains(v) by {
            assert(s.contains(v));
            let i = choose|i: int| 0 <= i < s.len() && s[i] == v;
            assert(p[i] < p.len());
        }
    }
    lemma_subset_equality(s.to_set(), r);
    assert(r.contains(q));
    assert(s.to_set().contains(q));
    assert(s.contains(q));
    let i = choose|i: int| 0 <= i < s.len() && s[i] == q;
    assert(p[i] == q);
}
// b with b[p[i]] == i for a permutation p is its two-sided inverse and a permutation itself
pub proof fn lemma_perm_inverse(p: Seq<usize>, b: Seq<usize>)
    requires is_perm(p), b.len() == p.len(), forall|i: int| 0 <= i < p.len() ==> #[trigger] b[p[i] as int] == i,
    ensures
        forall|q: int| 0 <= q < p.len() ==> #[trigger] b[q] < p.len() && p[b[q] as int] == q,
        is_perm(b),
{
    assert forall|q: int| 0 <= q < p.len() implies #[trigger] b[q] < p.len() && p[b[q] as int] == q by {
        lemma_perm_onto(p, q);
        let i = choose|i: int| 0 <= i < p.len() && #[trigger] p[i] == q;
        assert(b[p[i] as int] == i);
    }
    assert forall|i: int, j: int| 0 <= i < j < b.len() implies #[trigger] b[i] != #[trigger] b[j] by {
        if b[i] == b[j] { assert(p[b[i] as int] == i); assert(p[b[j] as int] == j); }
    }
}
// the ordering chosen by _qdldl_new (validated user vector, or AMD's) gives permute_symmetric its precondition
pub proof fn lemma_ordering_ok(A: CscMatrix<F>, perm: Seq<usize>, iperm: Seq<usize>)
    requires colptr_wf(A), A.m == A.n, is_upper(A), is_perm(perm), perm.len() == A.n, iperm.len() == A.n,
        forall|i: int| 0 <= i < perm.len() ==> #[trigger] iperm[perm[i] as int] == i,
    ensures psym_pre(A, iperm, A.n as int), perms_inverse(perm, iperm, A.n as int), in_range(perm, A.n as int),
{
    reveal(psym_pre); reveal(perms_inverse);
    lemma_perm_inverse(perm, iperm);
    assert(A.colptr_ok_u());
    assert forall|c: int, k: int| #[trigger] A.in_col_u(k, c) implies A.rowval@[k] <= c by { assert(in_col(A, k, c)); }
}
// both directions, as stored in the factorisation object
#[verifier::opaque]
pub open spec fn perms_inverse(perm: Seq<usize>, iperm: Seq<usize>, n: int) -> bool {
    &&& perm.len() == n && iperm.len() == n && is_perm(perm)
    &&& forall|i: int| 0 <= i < n ==> #[trigger] iperm[perm[i] as int] == i
    &&& forall|q: int| 0 <= q < n ==> #[trigger] iperm[q] < n && perm[iperm[q] as int] == q
}

//@fn file=src/qdldl/qdldl.rs name=permute rules=R17,R10,zipidx:1=im,drop:debug_assert!(
//@contract
    requires in_range(p@, b@.len() as int),
    ensures
        final(x)@.len() == old(x)@.len(),
        // x[i] = b[p[i]] for the common prefix (zip semantics); the rest of x is untouched
        forall|i: int| 0 <= i < p@.len() && i < old(x)@.len() ==> #[trigger] final(x)@[i] == b@[p@[i] as int],
        forall|i: int| p@.len() <= i < old(x)@.len() ==> #[trigger] final(x)@[i] == old(x)@[i],
//@loop 1
        invariant x@.len() == old(x)@.len(), in_range(p@, b@.len() as int), r14_n1 <= p@.len(), r14_n1 <= x@.len(),
            forall|i: int| 0 <= i < r14_i1 ==> #[trigger] x@[i] == b@[p@[i] as int],
            forall|i: int| r14_i1 <= i < x@.len() ==> #[trigger] x@[i] == old(x)@[i],
//@end

// =====================================================================================================================
// input validation: vocabulary and contract of unit csc_core (check_structure ASSUMED here, PROVED there)
// =====================================================================================================================
pub open spec fn colptr_wf(A: CscMatrix<F>) -> bool {
    &&& A.colptr@.len() == A.n + 1
    &&& A.colptr@[0] == 0
    &&& A.rowval@.len() == A.nzval@.len()
    &&& A.colptr@[A.n as int] == A.nzval@.len()
    &&& forall|a: int, b: int| 0 <= a <= b <= A.n ==> A.colptr@[a] <= A.colptr@[b]
}
pub open spec fn in_col(A: CscMatrix<F>, k: int, c: int) -> bool { 0 <= c < A.n && A.colptr@[c] <= k < A.colptr@[c + 1] }
pub open spec fn is_upper(A: CscMatrix<F>) -> bool { forall|c: int, k: int| #[trigger] in_col(A, k, c) ==> A.rowval@[k] <= c }
pub open spec fn no_empty_col(A: CscMatrix<F>) -> bool { forall|c: int| 0 <= c < A.colptr@.len() - 1 ==> #[trigger] A.colptr@[c] < A.colptr@[c + 1] }
#[verifier::external_body]
fn check_structure(A: &CscMatrix<F>) -> (r: Result<(), QDLDLError>)
    requires colptr_wf(*A),
    ensures
        r is Ok <==> (A.m == A.n && is_upper(*A) && no_empty_col(*A)),
        r matches Err(e) ==> {
            &&& (e == QDLDLError::IncompatibleDimension <==> A.m != A.n)
            &&& (e == QDLDLError::NotUpperTriangular <==> A.m == A.n && !is_upper(*A))
            &&& (e == QDLDLError::EmptyColumn <==> A.m == A.n && is_upper(*A) && !no_empty_col(*A)) },
{ unimplemented!() }

// =====================================================================================================================
// symmetric permutation: vocabulary and contract of unit csc_utils (permute_symmetric ASSUMED here, PROVED there)
// =====================================================================================================================
impl CscMatrix<F> {
    pub open spec fn colptr_ok_u(&self) -> bool {
        &&& self.colptr@.len() == self.n + 1
        &&& self.colptr@[0] == 0
        &&& self.rowval@.len() == self.nzval@.len()
        &&& self.colptr@[self.n as int] == self.nzval@.len()
        &&& forall|a: int, b: int| 0 <= a <= b <= self.n ==> self.colptr@[a] <= self.colptr@[b]
    }
    pub open spec fn in_col_u(&self, k: int, j: int) -> bool { 0 <= j < self.n && self.colptr@[j] <= k < self.colptr@[j + 1] }
}
pub open spec fn count_row(rows: Seq<usize>, r: int, j: int) -> int
    decreases j,
{
    if j <= 0 { 0 } else { count_row(rows, r, j - 1) + (if rows[j - 1] == r { 1int } else { 0int }) }
}
pub open spec fn below(rv: Seq<usize>, c: int, k: int) -> int decreases c { if c <= 0 { 0 } else { below(rv, c - 1, k) + count_row(rv, c - 1, k) } }
pub open spec fn tpos(rv: Seq<usize>, j: int) -> int { below(rv, rv[j] as int, rv.len() as int) + count_row(rv, rv[j] as int, j) }
pub open spec fn colof(A: CscMatrix<F>, k: int) -> int { choose|i: int| A.in_col_u(k, i) }
pub open spec fn umax(a: usize, b: usize) -> usize { if a >= b { a } else { b } }
pub open spec fn umin(a: usize, b: usize) -> usize { if a <= b { a } else { b } }
pub open spec fn tgt(A: CscMatrix<F>, ip: Seq<usize>, k: int) -> usize { umax(ip[A.rowval@[k] as int], ip[colof(A, k)]) }
pub open spec fn tgseq(A: CscMatrix<F>, ip: Seq<usize>) -> Seq<usize> { Seq::new(A.rowval@.len(), |k: int| tgt(A, ip, k)) }
#[verifier::opaque]
pub open spec fn psym_pre(A: CscMatrix<F>, ip: Seq<usize>, n: int) -> bool {
    &&& A.colptr_ok_u() && A.n == n && A.m == n && ip.len() == n && A.rowval@.len() <= usize::MAX
    &&& forall|c: int, k: int| #[trigger] A.in_col_u(k, c) ==> A.rowval@[k] <= c       // upper triangular (check_structure)
    &&& forall|q: int| 0 <= q < n ==> #[trigger] ip[q] < n                              // an inverse permutation maps into 0..n
}
#[verifier::external_body]
pub fn permute_symmetric(A: &CscMatrix<F>, iperm: &[usize]) -> (r: (CscMatrix<F>, Vec<usize>))
    requires psym_pre(*A, iperm@, A.n as int), A.n < usize::MAX,
    ensures
        // C12: (P, AtoPAPt) = the symmetric permutation of the upper-triangular A and its entry map
        // (the six `ensures` clauses of the contract in csc_utils, verbatim, folded into the predicate psym_post below so that their
        // quantifiers are instantiated only inside lemma_psym_triu)
        psym_post(*A, iperm@, r.0, r.1@),
{ unimplemented!() }

// ---- lemmas about that vocabulary (same statements and proofs as in csc_utils; re-proved here) ----
pub proof fn lemma_count_row_le(rows: Seq<usize>, r: int, j: int)
    requires 0 <= j <= rows.len(),
    ensures 0 <= count_row(rows, r, j) <= j,
    decreases j,
{ if j > 0 { lemma_count_row_le(rows, r, j - 1); } }
pub proof fn lemma_count_row_mono(rv: Seq<usize>, r: int, a: int, b: int)
    requires 0 <= a <= b <= rv.len(),
    ensures count_row(rv, r, a) <= count_row(rv, r, b),
    decreases b,
{ if a < b { lemma_count_row_mono(rv, r, a, b - 1); } }
pub proof fn lemma_below_step(rv: Seq<usize>, c: int, k: int)
    requires k >= 1, c >= 0,
    ensures below(rv, c, k) == below(rv, c, k - 1) + (if rv[k - 1] < c { 1int } else { 0int }),
    decreases c,
{ if c > 0 { lemma_below_step(rv, c - 1, k); } }
pub proof fn lemma_below_zero(rv: Seq<usize>, c: int)
    requires c >= 0,
    ensures below(rv, c, 0) == 0,
    decreases c,
{ if c > 0 { lemma_below_zero(rv, c - 1); } }
pub proof fn lemma_below_le(rv: Seq<usize>, c: int, k: int)
    requires 0 <= k <= rv.len(), c >= 0,
    ensures 0 <= below(rv, c, k) <= k,
    decreases k,
{
    if k > 0 { lemma_below_le(rv, c, k - 1); lemma_below_step(rv, c, k); } else { lemma_below_zero(rv, c); }
}
pub proof fn lemma_below_mono(rv: Seq<usize>, a: int, b: int, k: int)
    requires 0 <= a <= b, 0 <= k <= rv.len(),
    ensures below(rv, a, k) <= below(rv, b, k),
    decreases b,
{ if a < b { lemma_below_mono(rv, a, b - 1, k); lemma_count_row_le(rv, b - 1, k); } }
pub proof fn lemma_below_total(rv: Seq<usize>, sm: int, k: int)
    requires 0 <= k <= rv.len(), sm >= 0, forall|q: int| 0 <= q < rv.len() ==> #[trigger] rv[q] < sm,
    ensures below(rv, sm, k) == k,
    decreases k,
{
    if k > 0 { lemma_below_total(rv, sm, k - 1); lemma_below_step(rv, sm, k); } else { lemma_below_zero(rv, sm); }
}
pub proof fn lemma_tpos_range(rv: Seq<usize>, j: int, sm: int)
    requires 0 <= j < rv.len(), forall|q: int| 0 <= q < rv.len() ==> #[trigger] rv[q] < sm,
    ensures below(rv, rv[j] as int, rv.len() as int) <= tpos(rv, j) < below(rv, rv[j] + 1, rv.len() as int) <= rv.len(),
{
    let r = rv[j] as int; let n = rv.len() as int;
    lemma_count_row_le(rv, r, j);
    assert(count_row(rv, r, j + 1) == count_row(rv, r, j) + 1);
    lemma_count_row_mono(rv, r, j + 1, n);
    lemma_below_le(rv, r + 1, n);
}
pub proof fn lemma_tpos_distinct(rv: Seq<usize>, j1: int, j2: int, sm: int)
    requires 0 <= j1 < j2 < rv.len(), forall|q: int| 0 <= q < rv.len() ==> #[trigger] rv[q] < sm,
    ensures tpos(rv, j1) != tpos(rv, j2),
{
    let r1 = rv[j1] as int; let r2 = rv[j2] as int; let n = rv.len() as int;
    lemma_tpos_range(rv, j1, sm); lemma_tpos_range(rv, j2, sm);
    if r1 == r2 {
        assert(count_row(rv, r1, j1 + 1) == count_row(rv, r1, j1) + 1);
        lemma_count_row_mono(rv, r1, j1 + 1, j2);
    } else if r1 < r2 { lemma_below_mono(rv, r1 + 1, r2, n); } else { lemma_below_mono(rv, r2 + 1, r1, n); }
}
pub proof fn lemma_colof(A: CscMatrix<F>, k: int, i: int)
    requires A.colptr_ok_u(), A.in_col_u(k, i),
    ensures colof(A, k) == i,
{
    let c = colof(A, k);
    assert(A.in_col_u(k, c));
    if c < i { assert(A.colptr@[c + 1] <= A.colptr@[i]); }
    if i < c { assert(A.colptr@[i + 1] <= A.colptr@[c]); }
}
pub proof fn lemma_col_of(A: CscMatrix<F>, q: int, m: int) -> (i: int)
    requires A.colptr_ok_u(), 0 < m <= A.n, 0 <= q < A.colptr@[m],
    ensures A.in_col_u(q, i),
    decreases m,
{
    if A.colptr@[m - 1] <= q { m - 1 } else { lemma_col_of(A, q, m - 1) }
}
pub proof fn lemma_col_of_entry(A: CscMatrix<F>, q: int) -> (i: int)
    requires A.colptr_ok_u(), 0 <= q < A.rowval@.len(),
    ensures A.in_col_u(q, i),
{
    assert(A.n > 0) by { if A.n == 0 { assert(A.colptr@[0] == A.nzval@.len()); } }
    lemma_col_of(A, q, A.n as int)
}
pub proof fn lemma_tg_bound(A: CscMatrix<F>, ip: Seq<usize>, n: int)
    requires psym_pre(A, ip, n),
    ensures forall|q: int| 0 <= q < tgseq(A, ip).len() ==> #[trigger] tgseq(A, ip)[q] < n, tgseq(A, ip).len() == A.rowval@.len(),
{
    reveal(psym_pre);
    assert forall|q: int| 0 <= q < tgseq(A, ip).len() implies #[trigger] tgseq(A, ip)[q] < n by {
        let i = lemma_col_of_entry(A, q);
        lemma_colof(A, q, i);
        assert(A.rowval@[q] <= i);
    }
}

// ---- new here: the slot map is ONTO each column of the permuted matrix, hence the permuted matrix is upper triangular ----
// the t-th occurrence of r among the first m elements
pub proof fn lemma_nth_occ(rv: Seq<usize>, r: int, m: int, t: int) -> (k: int)
    requires 0 <= m <= rv.len(), 0 <= t < count_row(rv, r, m),
    ensures 0 <= k < m, rv[k] == r, count_row(rv, r, k) == t,
    decreases m,
{
    if m <= 0 { 0 }
    else if rv[m - 1] == r && count_row(rv, r, m - 1) == t { m - 1 }
    else { lemma_count_row_le(rv, r, m - 1); lemma_nth_occ(rv, r, m - 1, t) }
}
pub proof fn lemma_slot_has_entry(rv: Seq<usize>, c: int, s: int) -> (k: int)
    requires 0 <= c, below(rv, c, rv.len() as int) <= s < below(rv, c + 1, rv.len() as int),
    ensures 0 <= k < rv.len(), rv[k] == c, tpos(rv, k) == s,
{
    let n = rv.len() as int;
    assert(below(rv, c + 1, n) == below(rv, c, n) + count_row(rv, c, n));
    lemma_nth_occ(rv, c, n, s - below(rv, c, n))
}
// what permute_symmetric returns is again a square upper-triangular pattern (precondition of QDLDLWorkspace::new), and its entry map is
// in range and injective
pub open spec fn a2p_ok(map: Seq<usize>, nslots: int) -> bool {
    &&& forall|k: int| 0 <= k < map.len() ==> #[trigger] map[k] < nslots
    &&& forall|i: int, j: int| 0 <= i < j < map.len() ==> map[i] != map[j]
}
// the text of permute_symmetric's postcondition, as a predicate over its result (P, map)
#[verifier::opaque]
pub open spec fn psym_post(A: CscMatrix<F>, ip: Seq<usize>, P: CscMatrix<F>, map: Seq<usize>) -> bool {
    &&& P.m == A.n && P.n == A.n && P.colptr@.len() == A.n + 1 && P.rowval@.len() == A.rowval@.len() && P.nzval@.len() == A.rowval@.len() && map.len() == A.rowval@.len()
    &&& forall|c: int| 0 <= c <= A.n ==> #[trigger] P.colptr@[c] == below(tgseq(A, ip), c, A.rowval@.len() as int)
    &&& forall|k: int| 0 <= k < A.rowval@.len() ==> #[trigger] map[k] == tpos(tgseq(A, ip), k)
    &&& forall|k: int| 0 <= k < A.rowval@.len() ==> P.colptr@[tgt(A, ip, k) as int] <= #[trigger] tpos(tgseq(A, ip), k) < P.colptr@[tgt(A, ip, k) + 1]
    &&& forall|k: int| 0 <= k < A.rowval@.len() ==> P.rowval@[tpos(tgseq(A, ip), k)] == umin(ip[#[trigger] A.rowval@[k] as int], ip[colof(A, k)])
            && P.rowval@[tpos(tgseq(A, ip), k)] <= tgt(A, ip, k)
    &&& forall|k: int| 0 <= k < A.rowval@.len() ==> P.nzval@[tpos(tgseq(A, ip), k)] == #[trigger] A.nzval@[k]
}
pub proof fn lemma_psym_triu(A: CscMatrix<F>, ip: Seq<usize>, P: CscMatrix<F>, map: Seq<usize>)
    requires psym_pre(A, ip, A.n as int), psym_post(A, ip, P, map),
    ensures triu_wf(A.n, P.colptr@, P.rowval@), P.m == A.n, P.n == A.n, P.nzval@.len() == P.rowval@.len(),
{
    reveal(psym_post);
    let tg = tgseq(A, ip);
    let n = A.n as int;
    let nnz = A.rowval@.len() as int;
    lemma_tg_bound(A, ip, n);
    lemma_below_total(tg, n, nnz);
    assert(P.colptr@[0] == below(tg, 0, nnz));
    assert(P.colptr@[n] == below(tg, n, nnz));
    assert forall|c: int, d: int| 0 <= c <= d <= n implies P.colptr@[c] <= P.colptr@[d] by {
        lemma_below_mono(tg, c, d, nnz);
        assert(P.colptr@[c] == below(tg, c, nnz)); assert(P.colptr@[d] == below(tg, d, nnz));
    }
    assert forall|c: int, s: int| #![trigger P.colptr@[c], P.rowval@[s]] 0 <= c < n && P.colptr@[c] <= s < P.colptr@[c + 1] implies P.rowval@[s] <= c by {
        assert(P.colptr@[c] == below(tg, c, nnz)); assert(P.colptr@[c + 1] == below(tg, c + 1, nnz));
        let k = lemma_slot_has_entry(tg, c, s);
        assert(tg[k] == tgt(A, ip, k));
        assert(P.rowval@[tpos(tg, k)] <= tgt(A, ip, k));
    }
}
// ... and the entry map is in range, injective, and records where every entry went
pub proof fn lemma_psym_map(A: CscMatrix<F>, ip: Seq<usize>, P: CscMatrix<F>, map: Seq<usize>)
    requires psym_pre(A, ip, A.n as int), psym_post(A, ip, P, map),
    ensures is_sym_perm_of(A, ip, P, map),
{
    reveal(psym_post); reveal(is_sym_perm_of);
    let tg = tgseq(A, ip);
    let n = A.n as int;
    lemma_tg_bound(A, ip, n);
    assert forall|k: int| 0 <= k < map.len() implies #[trigger] map[k] < P.nzval@.len() by { lemma_tpos_range(tg, k, n); }
    assert forall|i: int, j: int| 0 <= i < j < map.len() implies map[i] != map[j] by { lemma_tpos_distinct(tg, i, j, n); }
    assert forall|k: int| 0 <= k < A.rowval@.len() implies P.colptr@[tgt(A, ip, k) as int] <= #[trigger] map[k] < P.colptr@[tgt(A, ip, k) + 1] by { assert(map[k] == tpos(tg, k)); }
    assert forall|k: int| 0 <= k < A.rowval@.len() implies P.rowval@[#[trigger] map[k] as int] == umin(ip[A.rowval@[k] as int], ip[colof(A, k)]) by {
        assert(map[k] == tpos(tg, k)); let _ = A.rowval@[k];
    }
    assert forall|k: int| 0 <= k < A.rowval@.len() implies P.nzval@[#[trigger] map[k] as int] == A.nzval@[k] by { assert(map[k] == tpos(tg, k)); let _ = A.nzval@[k]; }
}
// sum of the column counts: bounded by n * n when every count is at most n
pub proof fn lemma_psum_bound(l: Seq<usize>, n: int, k: int)
    requires 0 <= k <= l.len(), n >= 0, forall|c: int| 0 <= c < l.len() ==> #[trigger] l[c] <= n,
    ensures 0 <= psum(l, k) <= k * n,
    decreases k,
{
    if k > 0 {
        lemma_psum_bound(l, n, k - 1);
        assert((k - 1) * n + n == k * n) by(nonlinear_arith);
    } else {
        assert(0 * n == 0);
    }
}
pub proof fn lemma_mul_mono(k: int, n: int)
    requires 0 <= k <= n,
    ensures k * n <= n * n,
{ assert(k * n <= n * n) by(nonlinear_arith) requires 0 <= k <= n; }

// =====================================================================================================================
// allocation (real text, shared fragment) and the settings
// =====================================================================================================================
impl CscMatrix<F> {
//@include units/inc/csc_alloc.rs
}
// ASSUMED: derive_builder-generated QDLDLSettingsBuilder (same stand-in as in unit kkt_solve): `default()` = no field set,
// `build()` = Ok with every field its #[builder(default = ..)] value
pub struct QDLDLSettingsBuilder<T> { pub _p: Option<T> }
pub open spec fn is_default_settings(o: QDLDLSettings<F>) -> bool {
    &&& o.amd_dense_scale == 1.0f64 && o.perm is None && !o.logical && o.Dsigns is None && o.regularize_enable
    &&& o.regularize_eps == f_lit(1e-12f64) && o.regularize_delta == f_lit(1e-7f64)
}
impl QDLDLSettingsBuilder<F> {
    #[verifier::external_body] pub fn default() -> (r: Self) { unimplemented!() }
    #[verifier::external_body] pub fn build(&self) -> (r: Result<QDLDLSettings<F>, u8>)
        ensures r is Ok, is_default_settings(r->Ok_0) { unimplemented!() }
}
impl Default for QDLDLSettings<F> {
//@fn file=src/qdldl/qdldl.rs in="Default for QDLDLSettings<T>" name=default rules=R1 ret=r
//@contract
    ensures is_default_settings(r),
//@end
}
// the options in effect: `opts.unwrap_or_default()`
pub open spec fn opt_perm(o: Option<QDLDLSettings<F>>) -> Option<Seq<usize>> { match o { Some(s) => match s.perm { Some(p) => Some(p@), None => None }, None => None } }
pub open spec fn opt_dsigns(o: Option<QDLDLSettings<F>>) -> Option<Seq<i8>> { match o { Some(s) => match s.Dsigns { Some(d) => Some(d@), None => None }, None => None } }
pub open spec fn opt_logical(o: Option<QDLDLSettings<F>>) -> bool { match o { Some(s) => s.logical, None => false } }
pub open spec fn opt_reg_enable(o: Option<QDLDLSettings<F>>) -> bool { match o { Some(s) => s.regularize_enable, None => true } }
pub open spec fn opt_reg_eps(o: Option<QDLDLSettings<F>>) -> F { match o { Some(s) => s.regularize_eps, None => f_lit(1e-12f64) } }
pub open spec fn opt_reg_delta(o: Option<QDLDLSettings<F>>) -> F { match o { Some(s) => s.regularize_delta, None => f_lit(1e-7f64) } }

// =====================================================================================================================
// the factorisation object
// =====================================================================================================================
// struct invariant: established by `new`, kept by `refactor` (and by update_values / scale_values / offset_values / solve of unit
// qdldl_kernels, which change only workspace.triuA.nzval resp. workspace.fwork); it is the precondition of `_factor`
pub open spec fn fact_ok(f: QDLDLFactorisation<F>) -> bool {
    let n = f.workspace.triuA.n;
    &&& ws_ok(f.workspace)
    &&& f.L.m == n && f.L.n == n && f.L.colptr@.len() == n + 1 && f.L.rowval@.len() == f.L.nzval@.len()
    &&& psum(f.workspace.Lnz@, n as int) <= f.L.rowval@.len()
    &&& f.D@.len() == n && f.Dinv@.len() == n
    &&& perms_inverse(f.perm@, f.iperm@, n as int)
}
// C12 at the public API: the object holds a completed NUMERIC factorisation -- no zero pivot, Dinv = 1/D entry by entry, the reported positive
// inertia is the number of positive pivots, pivots were perturbed exactly when their signed value fell below the threshold (to delta * sign) and
// the reported regularisation count is the number of perturbed pivots (pre = the pivots as computed, before the regularisation step)
#[verifier::opaque]
pub open spec fn numeric_ok(f: QDLDLFactorisation<F>) -> bool {
    let n = f.workspace.triuA.n as int;
    &&& pivots_ok(n, f.D@, f.Dinv@, f.workspace.positive_inertia as int)
    &&& exists|pre: Seq<F>| pre.len() == n
            && #[trigger] reg_ok(n, pre, f.D@, f.workspace.Dsigns@, f.workspace.regularize_enable, f.workspace.regularize_eps, f.workspace.regularize_delta,
                f.workspace.regularize_count as int)
}
// a logical (symbolic-only) factorisation: placeholders 1 in L and Dinv, nothing counted
#[verifier::opaque]
pub open spec fn logical_ok(f: QDLDLFactorisation<F>) -> bool {
    &&& f.workspace.positive_inertia == 0 && f.workspace.regularize_count == 0
    &&& forall|k: int| 0 <= k < f.Dinv@.len() ==> #[trigger] f.Dinv@[k] == f_one()
    &&& forall|j: int| 0 <= j < f.L.nzval@.len() ==> #[trigger] f.L.nzval@[j] == f_one()
}
// (both are kept folded in the function bodies; these two lemmas fold what _factor's contract delivers)
pub proof fn lemma_numeric_intro(f: QDLDLFactorisation<F>, pre: Seq<F>)
    requires
        pivots_ok(f.workspace.triuA.n as int, f.D@, f.Dinv@, f.workspace.positive_inertia as int), pre.len() == f.workspace.triuA.n,
        reg_ok(f.workspace.triuA.n as int, pre, f.D@, f.workspace.Dsigns@, f.workspace.regularize_enable, f.workspace.regularize_eps, f.workspace.regularize_delta,
            f.workspace.regularize_count as int),
    ensures numeric_ok(f),
{ reveal(numeric_ok); }
pub proof fn lemma_logical_intro(f: QDLDLFactorisation<F>)
    requires
        f.workspace.positive_inertia == 0, f.workspace.regularize_count == 0,
        forall|k: int| 0 <= k < f.Dinv@.len() ==> #[trigger] f.Dinv@[k] == f_one(),
        forall|j: int| 0 <= j < f.L.nzval@.len() ==> #[trigger] f.L.nzval@[j] == f_one(),
    ensures logical_ok(f),
{ reveal(logical_ok); }
// the copy that is factored is the symmetric permutation of Ain by ip (entry k -> slot map[k], column max(ip r, ip c), row min(ip r, ip c), same value)
#[verifier::opaque]
pub open spec fn is_sym_perm_of(A: CscMatrix<F>, ip: Seq<usize>, P: CscMatrix<F>, map: Seq<usize>) -> bool {
    &&& map.len() == A.rowval@.len() && a2p_ok(map, P.nzval@.len() as int)
    &&& forall|k: int| 0 <= k < A.rowval@.len() ==> P.colptr@[tgt(A, ip, k) as int] <= #[trigger] map[k] < P.colptr@[tgt(A, ip, k) + 1]
    &&& forall|k: int| 0 <= k < A.rowval@.len() ==> P.rowval@[#[trigger] map[k] as int] == umin(ip[A.rowval@[k] as int], ip[colof(A, k)])
    &&& forall|k: int| 0 <= k < A.rowval@.len() ==> P.nzval@[#[trigger] map[k] as int] == A.nzval@[k]
}
pub open spec fn dsigns_of(o: Option<QDLDLSettings<F>>, perm: Seq<usize>, ds: Seq<i8>) -> bool {
    match opt_dsigns(o) {
        Some(d) => forall|i: int| 0 <= i < ds.len() ==> #[trigger] ds[i] == d[perm[i] as int],
        None => forall|i: int| 0 <= i < ds.len() ==> #[trigger] ds[i] == 1i8,
    }
}
// what a successful construction delivers
pub open spec fn qf_built(f: QDLDLFactorisation<F>, Ain: CscMatrix<F>, o: Option<QDLDLSettings<F>>) -> bool {
    let n = Ain.n;
    &&& fact_ok(f) && f.workspace.triuA.n == n && f.is_symbolic == opt_logical(o)
    &&& (opt_perm(o) matches Some(p) ==> f.perm@ == p)
    &&& is_sym_perm_of(Ain, f.iperm@, f.workspace.triuA, f.workspace.AtoPAPt@)
    // L has exactly the symbolic number of slots, and after a successful factorisation it is what the triangular solves require
    &&& f.L.rowval@.len() == psum(f.workspace.Lnz@, n as int)
    &&& (n > 0 ==> l_complete(n as int, f.L.colptr@, f.L.rowval@, f.L.nzval@))
    &&& dsigns_of(o, f.perm@, f.workspace.Dsigns@)
    &&& f.workspace.regularize_enable == opt_reg_enable(o) && f.workspace.regularize_eps == opt_reg_eps(o) && f.workspace.regularize_delta == opt_reg_delta(o)
    &&& f.workspace.regularize_count <= n && f.workspace.positive_inertia <= n
    // numeric construction: the pivot / inertia / regularisation facts; logical construction: placeholders only (and never an error)
    &&& (!opt_logical(o) ==> numeric_ok(f)) && (opt_logical(o) ==> logical_ok(f))
}
// composition with unit qdldl_kernels: a successfully constructed / refactored object satisfies the precondition of `QDLDLFactorisation::solve`
// as stated there (l_wf of the factor, lengths of Dinv / fwork / perm, perm in range), and the hypotheses of its functional clause
// (l_strict, perm without repetitions) -- for n > 0 (O12)
pub open spec fn distinct(p: Seq<usize>) -> bool { forall|i: int, j: int| 0 <= i < j < p.len() ==> p[i] != p[j] }
pub proof fn lemma_solve_pre(f: QDLDLFactorisation<F>, blen: int)
    requires fact_ok(f), f.workspace.triuA.n > 0, blen == f.D@.len(),
        l_complete(f.workspace.triuA.n as int, f.L.colptr@, f.L.rowval@, f.L.nzval@),
    ensures
        l_wf(blen, f.L.colptr@, f.L.rowval@, f.L.nzval@), f.Dinv@.len() >= blen,
        f.workspace.fwork@.len() == blen, f.perm@.len() == blen, in_range(f.perm@, blen),
        l_strict(blen, f.L.colptr@, f.L.rowval@), distinct(f.perm@),
{
    reveal(l_complete); reveal(perms_inverse);
}
// the sizes fit the machine word and the optional vectors have the dimension of the matrix (see REQUIRES / OBSERVATIONS in the header)
pub open spec fn new_pre(Ain: CscMatrix<F>, o: Option<QDLDLSettings<F>>) -> bool {
    &&& Ain.n * Ain.n <= usize::MAX && 3 * Ain.n <= usize::MAX
    &&& (opt_perm(o) matches Some(p) ==> p.len() == Ain.n)
    &&& (opt_dsigns(o) matches Some(d) ==> d.len() >= Ain.n)
}
pub open spec fn bad_perm(o: Option<QDLDLSettings<F>>) -> bool { opt_perm(o) matches Some(p) && !is_perm(p) }

//@fn file=src/qdldl/qdldl.rs name=_qdldl_new rules=R1,tupcall,R30i ret=r
//@contract
    requires
        // what check_structure has established for the input of `new`
        colptr_wf(*Ain), Ain.m == Ain.n, is_upper(*Ain),
        new_pre(*Ain, opts),
    ensures
        // C12: an invalid permutation vector is reported as such -- and nothing else is
        bad_perm(opts) <==> (r matches Err(e) && e == QDLDLError::InvalidPermutation),
        // the only other error is a zero pivot, and only a numeric factorisation reports one
        r matches Err(e) ==> e == QDLDLError::InvalidPermutation || (e == QDLDLError::ZeroPivot && !opt_logical(opts)),
        r matches Ok(f) ==> qf_built(f, *Ain, opts),
        // a logical factorisation with a valid ordering cannot fail
        opt_logical(opts) && !bad_perm(opts) ==> r is Ok,
//@pre
    let ghost gn = Ain.n as int;
    let ghost o0 = opts;
//@after "let opts = opts.unwrap_or_default();"
    proof {
        assert(opt_perm(o0) == (match opts.perm { Some(p) => Some(p@), None => None }));
        assert(opt_dsigns(o0) == (match opts.Dsigns { Some(d) => Some(d@), None => None }));
        assert(opts.logical == opt_logical(o0) && opts.regularize_enable == opt_reg_enable(o0) && opts.regularize_eps == opt_reg_eps(o0) && opts.regularize_delta == opt_reg_delta(o0));
    }
    let ghost ods = opts.Dsigns;
//@before "let (A, AtoPAPt) = permute_symmetric(Ain, &iperm);"
    proof { lemma_ordering_ok(*Ain, perm@, iperm@); }
//@after "let (A, AtoPAPt) = permute_symmetric(Ain, &iperm);"
    let ghost A0 = A;
    let ghost map0 = AtoPAPt@;
    proof {
        lemma_psym_triu(*Ain, iperm@, A0, map0);
        lemma_psym_map(*Ain, iperm@, A0, map0);
        lemma_triu_hide(A0.n, A0.colptr@, A0.rowval@);
    }
//@before "let sumLnz ="
    proof {
        assert(ws_ok(workspace) && workspace.triuA == A0);
        assert forall|c: int| 0 <= c < workspace.Lnz@.len() implies #[trigger] workspace.Lnz@[c] <= gn by {
            lemma_cnt_range(workspace.triuA.colptr@, workspace.triuA.rowval@, workspace.etree@, c, gn);
        }
        lemma_psum_bound(workspace.Lnz@, gn, gn);
    }
    let ghost lnz = workspace.Lnz@;
//@before "_factor(&mut L, &mut D, &mut Dinv, &mut workspace"
    let ghost ws0 = workspace;
//@after "_factor(&mut L, &mut D, &mut Dinv, &mut workspace"
    proof {
        // fold the numeric / logical facts of _factor's contract over the object that is about to be returned (ws_static_same: Dsigns and the
        // regularisation parameters of the final workspace are those the factorisation ran with)
        let fg = QDLDLFactorisation::<F> { perm: perm, iperm: iperm, L: L, D: D, Dinv: Dinv, workspace: workspace, is_symbolic: opts.logical };
        if !opts.logical {
            let pre = choose|pre: Seq<F>| pre.len() == ws0.triuA.n
                && #[trigger] reg_ok(ws0.triuA.n as int, pre, D@, ws0.Dsigns@, ws0.regularize_enable, ws0.regularize_eps, ws0.regularize_delta, workspace.regularize_count as int);
            lemma_numeric_intro(fg, pre);
        } else {
            lemma_logical_intro(fg);
        }
    }
//@iter 1
it
//@loop 1
        invariant
            lnz == workspace.Lnz@, lnz.len() == gn, gn == n, gn * gn <= usize::MAX, it.seq().len() == gn,
            forall|q: int| 0 <= q < gn ==> *(#[trigger] it.seq()[q]) == lnz[q],
            forall|c: int| 0 <= c < gn ==> #[trigger] lnz[c] <= gn,
            r30i_s1 == psum(lnz, it.index@ as int),
//@body_start 1
        proof {
            lemma_psum_bound(lnz, gn, it.index@ + 1);
            lemma_mul_mono(it.index@ + 1, gn);
        }
//@end

impl QDLDLFactorisation<F> {
//@fn file=src/qdldl/qdldl.rs in="impl<T> QDLDLFactorisation<T>" name=new rules=R1 ret=r
//@contract
    requires colptr_wf(*Ain), new_pre(*Ain, opts),
    ensures
        // C12: "non-square, non-upper-triangular or empty-column inputs ... are reported as errors": exactly the inputs check_structure
        // rejects, with its error kinds in its order
        (Ain.m != Ain.n) <==> (r matches Err(e) && e == QDLDLError::IncompatibleDimension),
        (Ain.m == Ain.n && !is_upper(*Ain)) <==> (r matches Err(e) && e == QDLDLError::NotUpperTriangular),
        (Ain.m == Ain.n && is_upper(*Ain) && !no_empty_col(*Ain)) <==> (r matches Err(e) && e == QDLDLError::EmptyColumn),
        // ... "and invalid permutation vectors": for a structurally valid input, exactly when the supplied vector is not a permutation
        (Ain.m == Ain.n && is_upper(*Ain) && no_empty_col(*Ain) && bad_perm(opts)) <==> (r matches Err(e) && e == QDLDLError::InvalidPermutation),
        // a zero pivot can only come out of a numeric factorisation of a structurally valid input
        (r matches Err(e) && e == QDLDLError::ZeroPivot) ==> Ain.m == Ain.n && is_upper(*Ain) && no_empty_col(*Ain) && !bad_perm(opts) && !opt_logical(opts),
        r matches Ok(f) ==> Ain.m == Ain.n && is_upper(*Ain) && no_empty_col(*Ain) && !bad_perm(opts) && qf_built(f, *Ain, opts),
//@end

//@fn file=src/qdldl/qdldl.rs in="impl<T> QDLDLFactorisation<T>" name=refactor rules=R1 ret=r
//@contract
    requires fact_ok(*old(self)),
    ensures
        // the object stays fit for solves / further refactorisations; it now holds (or failed to get) a NUMERIC factorisation
        fact_ok(*final(self)), !final(self).is_symbolic,
        ws_static_same(old(self).workspace, final(self).workspace), final(self).perm == old(self).perm, final(self).iperm == old(self).iperm,
        final(self).L.rowval@.len() == old(self).L.rowval@.len(),
        // C12: the verdict of the numeric factorisation IS the verdict of refactor (never swallowed): Ok only for a completed factorisation,
        // whose L is then what the triangular solves require; the only error is a zero pivot
        r is Ok && old(self).workspace.triuA.n > 0 ==> l_complete(old(self).workspace.triuA.n as int, final(self).L.colptr@, final(self).L.rowval@, final(self).L.nzval@),
        r is Ok ==> final(self).workspace.positive_inertia <= old(self).workspace.triuA.n,
        // C12: ... and it IS a numeric factorisation: Dinv = 1/D, no zero pivot, inertia = number of positive pivots, the regularisation rule
        r is Ok ==> numeric_ok(*final(self)),
        r matches Err(e) ==> e == QDLDLError::ZeroPivot,
        final(self).workspace.regularize_count <= old(self).workspace.triuA.n,
//@pre
        let ghost ws0 = self.workspace;
//@post
        proof {
            if r_v is Ok {
                let pre = choose|pre: Seq<F>| pre.len() == ws0.triuA.n
                    && #[trigger] reg_ok(ws0.triuA.n as int, pre, self.D@, ws0.Dsigns@, ws0.regularize_enable, ws0.regularize_eps, ws0.regularize_delta, self.workspace.regularize_count as int);
                lemma_numeric_intro(*self, pre);
            }
        }
//@end

//@fn file=src/qdldl/qdldl.rs in="impl<T> QDLDLFactorisation<T>" name=positive_inertia rules=R1 ret=r
//@contract
    ensures r == self.workspace.positive_inertia,
        // C12: "the reported positive inertia equals the number of positive pivots" (for an object holding a numeric factorisation)
        numeric_ok(*self) ==> r == pos_cnt(self.D@, self.workspace.triuA.n as int),
//@pre
        proof { reveal(numeric_ok); }
//@end
//@fn file=src/qdldl/qdldl.rs in="impl<T> QDLDLFactorisation<T>" name=regularize_count rules=R1 ret=r
//@contract
    ensures r == self.workspace.regularize_count,
        // C12: the reported count is the number of pivots that fell below the threshold (pre = the pivots before the regularisation step)
        numeric_ok(*self) ==> exists|pre: Seq<F>| pre.len() == self.workspace.triuA.n
            && #[trigger] reg_ok(self.workspace.triuA.n as int, pre, self.D@, self.workspace.Dsigns@, self.workspace.regularize_enable, self.workspace.regularize_eps,
                self.workspace.regularize_delta, r as int),
//@pre
        proof { reveal(numeric_ok); }
//@end
//@fn file=src/qdldl/qdldl.rs in="impl<T> QDLDLFactorisation<T>" name=nnzA rules=R1 ret=r
//@contract
    requires fact_ok(*self),
    ensures r == self.workspace.triuA.rowval@.len(),
//@pre
        proof { reveal(triu_o); }
//@end
//@fn file=src/qdldl/qdldl.rs in="impl<T> QDLDLFactorisation<T>" name=nnzL rules=R1 ret=r
//@contract
    requires fact_ok(*self),
    ensures r == self.L.colptr@[self.L.n as int],
//@end
}
} // verus!
fn main() {}
