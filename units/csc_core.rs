// unit `csc_core` : structural operations of the compressed-column matrix type against their dense meaning (C16)
// float model: F-opaque (only `val != 0` is asked of the values)
use vstd::prelude::*;
verus! {
//@include prelude/float_opaque.rs
//@include prelude/std_assumed.rs
//@struct file=src/algebra/csc/core.rs name=CscMatrix
//@include units/inc/csc_colcount_specs.rs
//@enum file=src/qdldl/qdldl.rs name=QDLDLError rules=R12 derive="PartialEq, Eq, Clone, Copy, Structural"
//@enum file=src/algebra/error_types.rs name=SparseFormatError rules=R12 derive="PartialEq, Eq, Clone, Copy, Structural"

// well-formed encoding as far as the structural operations need it (monotone column pointers from 0 to nnz)
pub open spec fn colptr_wf(A: CscMatrix<F>) -> bool {
    &&& A.colptr@.len() == A.n + 1
    &&& A.colptr@[0] == 0
    &&& A.rowval@.len() == A.nzval@.len()
    &&& A.colptr@[A.n as int] == A.nzval@.len()
    &&& forall|a: int, b: int| 0 <= a <= b <= A.n ==> A.colptr@[a] <= A.colptr@[b]
}
pub open spec fn in_col(A: CscMatrix<F>, k: int, c: int) -> bool { 0 <= c < A.n && A.colptr@[c] <= k < A.colptr@[c + 1] }
// the three layers of the canonical encoding, in the order check_format tests them
pub open spec fn dims_ok(A: CscMatrix<F>) -> bool {
    A.rowval@.len() == A.nzval@.len() && A.colptr@.len() == A.n + 1 && A.colptr@[A.n as int] == A.rowval@.len()
}
pub open spec fn colptr_mono(A: CscMatrix<F>) -> bool {
    A.colptr@[0] == 0 && forall|i: int| 0 <= i < A.colptr@.len() - 1 ==> #[trigger] A.colptr@[i] <= A.colptr@[i + 1]
}
pub open spec fn rows_sorted(A: CscMatrix<F>) -> bool {
    forall|c: int, k: int| #[trigger] in_col(A, k, c) && k + 1 < A.colptr@[c + 1] ==> A.rowval@[k] < A.rowval@[k + 1]
}
pub open spec fn rows_in_range(A: CscMatrix<F>) -> bool { forall|k: int| 0 <= k < A.rowval@.len() ==> #[trigger] A.rowval@[k] < A.m }
pub open spec fn canonical(A: CscMatrix<F>) -> bool { dims_ok(A) && colptr_mono(A) && rows_sorted(A) && rows_in_range(A) }
pub proof fn lemma_mono_all(cp: Seq<usize>)
    requires forall|i: int| 0 <= i < cp.len() - 1 ==> #[trigger] cp[i] <= cp[i + 1],
    ensures forall|a: int, b: int| 0 <= a <= b < cp.len() ==> cp[a] <= cp[b],
{
    assert forall|a: int, b: int| 0 <= a <= b < cp.len() implies cp[a] <= cp[b] by { lemma_mono_ab(cp, a, b); }
}
pub proof fn lemma_mono_ab(cp: Seq<usize>, a: int, b: int)
    requires forall|i: int| 0 <= i < cp.len() - 1 ==> #[trigger] cp[i] <= cp[i + 1], 0 <= a <= b < cp.len(),
    ensures cp[a] <= cp[b],
    decreases b - a,
{ if a < b { lemma_mono_ab(cp, a, b - 1); assert(cp[b - 1] <= cp[b - 1 + 1]); } }

// ---- upper-triangle extraction ----
// number of the first k elements of s that are <= c
pub open spec fn cnt_le(s: Seq<usize>, k: int, c: int) -> int decreases k { if k <= 0 { 0 } else { cnt_le(s, k - 1, c) + (if s[k - 1] <= c { 1int } else { 0int }) } }
pub proof fn lemma_cnt_le_bounds(s: Seq<usize>, k: int, c: int)
    requires 0 <= k,
    ensures 0 <= cnt_le(s, k, c) <= k,
    decreases k,
{ if k > 0 { lemma_cnt_le_bounds(s, k - 1, c); } }
// in a column with nondecreasing row indices the entries <= c are exactly the first cnt_le of them
pub proof fn lemma_cnt_le_sorted(s: Seq<usize>, k: int, c: int)
    requires 0 <= k <= s.len(), forall|i: int, j: int| 0 <= i <= j < s.len() ==> s[i] <= s[j],
    ensures forall|i: int| 0 <= i < k ==> (#[trigger] s[i] <= c <==> i < cnt_le(s, k, c)),
    decreases k,
{
    if k > 0 {
        lemma_cnt_le_sorted(s, k - 1, c);
        lemma_cnt_le_bounds(s, k - 1, c);
        if s[k - 1] <= c {
            if k - 1 > 0 { assert(s[k - 2] <= s[k - 1]); assert(s[k - 2] <= c <==> k - 2 < cnt_le(s, k - 1, c)); }
        }
    }
}
pub open spec fn col_rows(A: CscMatrix<F>, c: int) -> Seq<usize> { A.rowval@.subrange(A.colptr@[c] as int, A.colptr@[c + 1] as int) }
// entries of column c on or above the diagonal, and their running total over the columns before c
pub open spec fn triu_cnt(A: CscMatrix<F>, c: int) -> int { cnt_le(col_rows(A, c), col_rows(A, c).len() as int, c) }
pub open spec fn triu_cum(A: CscMatrix<F>, c: int) -> int decreases c { if c <= 0 { 0 } else { triu_cum(A, c - 1) + triu_cnt(A, c - 1) } }
pub proof fn lemma_triu_cum_le(A: CscMatrix<F>, c: int)
    requires colptr_wf(A), 0 <= c <= A.n,
    ensures 0 <= triu_cum(A, c) <= A.colptr@[c], c < A.n ==> 0 <= triu_cnt(A, c) <= A.colptr@[c + 1] - A.colptr@[c],
    decreases c,
{
    if c > 0 {
        lemma_triu_cum_le(A, c - 1);
        assert(A.colptr@[c - 1] <= A.colptr@[c]);
        lemma_cnt_le_bounds(col_rows(A, c - 1), col_rows(A, c - 1).len() as int, c - 1);
    }
    if c < A.n {
        assert(A.colptr@[c] <= A.colptr@[c + 1] <= A.colptr@[A.n as int]);
        lemma_cnt_le_bounds(col_rows(A, c), col_rows(A, c).len() as int, c);
    }
}
pub proof fn lemma_triu_cum_mono(A: CscMatrix<F>, a: int, b: int)
    requires colptr_wf(A), 0 <= a <= b <= A.n,
    ensures triu_cum(A, a) <= triu_cum(A, b),
    decreases b,
{ if a < b { lemma_triu_cum_mono(A, a, b - 1); lemma_triu_cum_le(A, b - 1); } }

// what to_triu's postcondition means for a matrix whose columns have nondecreasing row indices: the result is upper
// triangular and holds exactly the entries of A on or above the diagonal, in their columns, with their values
pub open spec fn to_triu_post(A: CscMatrix<F>, R: CscMatrix<F>) -> bool {
    &&& R.m == A.m && R.n == A.n && colptr_wf(R)
    &&& forall|c: int| 0 <= c <= A.n ==> #[trigger] R.colptr@[c] == triu_cum(A, c)
    &&& forall|c: int, i: int| #[trigger] tslot(c, i) && 0 <= c < A.n && 0 <= i < triu_cnt(A, c) ==> R.rowval@[triu_cum(A, c) + i] == A.rowval@[A.colptr@[c] + i]
    &&& forall|c: int, i: int| #[trigger] tslot(c, i) && 0 <= c < A.n && 0 <= i < triu_cnt(A, c) ==> R.nzval@[triu_cum(A, c) + i] == A.nzval@[A.colptr@[c] + i]
}
// names the i-th kept entry of column c (a trigger for the copy clauses: an index term with arithmetic in it is not one Z3 matches reliably)
pub open spec fn tslot(c: int, i: int) -> bool { true }
pub proof fn lemma_col_prefix(A: CscMatrix<F>, c: int)
    requires
        colptr_wf(A), 0 <= c < A.n,
        forall|c: int, k1: int, k2: int| #[trigger] in_col(A, k1, c) && #[trigger] in_col(A, k2, c) && k1 <= k2 ==> A.rowval@[k1] <= A.rowval@[k2],
    ensures forall|i: int| 0 <= i < col_rows(A, c).len() ==> (#[trigger] col_rows(A, c)[i] <= c <==> i < triu_cnt(A, c)),
{
    assert(A.colptr@[c] <= A.colptr@[c + 1] <= A.colptr@[A.n as int]);
    let sq = col_rows(A, c);
    assert forall|i: int, j: int| 0 <= i <= j < sq.len() implies sq[i] <= sq[j] by {
        assert(sq[i] == A.rowval@[A.colptr@[c] + i]); assert(sq[j] == A.rowval@[A.colptr@[c] + j]);
        assert(in_col(A, A.colptr@[c] + i, c) && in_col(A, A.colptr@[c] + j, c));
    }
    lemma_cnt_le_sorted(sq, sq.len() as int, c);
}
pub proof fn lemma_to_triu_dense(A: CscMatrix<F>, R: CscMatrix<F>)
    requires
        colptr_wf(A), to_triu_post(A, R),
        forall|c: int, k1: int, k2: int| #[trigger] in_col(A, k1, c) && #[trigger] in_col(A, k2, c) && k1 <= k2 ==> A.rowval@[k1] <= A.rowval@[k2],
    ensures
        forall|c: int, k: int| #[trigger] in_col(R, k, c) ==> R.rowval@[k] <= c,
        forall|c: int, k: int| #[trigger] in_col(A, k, c) && A.rowval@[k] <= c ==> {
            let d = triu_cum(A, c) + (k - A.colptr@[c]);
            in_col(R, d, c) && R.rowval@[d] == A.rowval@[k] && R.nzval@[d] == A.nzval@[k] },
{
    assert forall|c: int, k: int| #[trigger] in_col(R, k, c) implies R.rowval@[k] <= c by {
        let i = k - triu_cum(A, c);
        lemma_col_prefix(A, c);
        assert(R.colptr@[c] == triu_cum(A, c)); assert(R.colptr@[c + 1] == triu_cum(A, c + 1));
        assert(triu_cum(A, c + 1) == triu_cum(A, c) + triu_cnt(A, c));
        lemma_triu_cum_le(A, c);
        assert(tslot(c, i));
        assert(R.rowval@[triu_cum(A, c) + i] == A.rowval@[A.colptr@[c] + i]);
        assert(col_rows(A, c)[i] == A.rowval@[A.colptr@[c] + i]);
    }
    assert forall|c: int, k: int| #[trigger] in_col(A, k, c) && A.rowval@[k] <= c implies ({
            let d = triu_cum(A, c) + (k - A.colptr@[c]);
            in_col(R, d, c) && R.rowval@[d] == A.rowval@[k] && R.nzval@[d] == A.nzval@[k] }) by {
        let i = k - A.colptr@[c];
        lemma_col_prefix(A, c);
        assert(col_rows(A, c)[i] == A.rowval@[k]);
        assert(i < triu_cnt(A, c));
        assert(R.colptr@[c] == triu_cum(A, c)); assert(R.colptr@[c + 1] == triu_cum(A, c + 1));
        assert(triu_cum(A, c + 1) == triu_cum(A, c) + triu_cnt(A, c));
        assert(tslot(c, i));
        assert(R.rowval@[triu_cum(A, c) + i] == A.rowval@[A.colptr@[c] + i]);
    }
}
// a canonical column is strictly increasing, hence nondecreasing as a sequence
pub proof fn lemma_col_sorted(A: CscMatrix<F>, c: int)
    requires canonical(A), 0 <= c < A.n, A.colptr@[c] <= A.colptr@[c + 1] <= A.rowval@.len(),
    ensures nondecreasing(col_rows(A, c)), forall|i: int, j: int| 0 <= i < j < col_rows(A, c).len() ==> col_rows(A, c)[i] < col_rows(A, c)[j],
{
    let sq = col_rows(A, c);
    assert forall|i: int, j: int| 0 <= i < j < sq.len() implies sq[i] < sq[j] by { lemma_col_lt(A, c, i, j); }
}
pub proof fn lemma_col_lt(A: CscMatrix<F>, c: int, i: int, j: int)
    requires canonical(A), 0 <= c < A.n, A.colptr@[c] <= A.colptr@[c + 1] <= A.rowval@.len(), 0 <= i < j < col_rows(A, c).len(),
    ensures col_rows(A, c)[i] < col_rows(A, c)[j],
    decreases j - i,
{
    let lo = A.colptr@[c] as int;
    assert(in_col(A, lo + j - 1, c));
    assert(A.rowval@[lo + j - 1] < A.rowval@[lo + j - 1 + 1]);
    if i < j - 1 { lemma_col_lt(A, c, i, j - 1); }
}

// ---- row selection ----
// number of selected rows among the first r = the new index of row r
pub open spec fn rank(sel: Seq<bool>, r: int) -> int decreases r { if r <= 0 { 0 } else { rank(sel, r - 1) + (if sel[r - 1] { 1int } else { 0int }) } }
pub proof fn lemma_rank_mono(sel: Seq<bool>, a: int, b: int)
    requires 0 <= a <= b,
    ensures 0 <= rank(sel, a) <= rank(sel, b), rank(sel, a) <= a, rank(sel, b) - rank(sel, a) <= b - a,
    decreases b,
{ if a < b { lemma_rank_mono(sel, a, b - 1); } else if a > 0 { lemma_rank_mono(sel, a - 1, a - 1); } }
// number of stored entries among the first k that lie in a selected row = the slot entry k moves to
pub open spec fn keptp(rv: Seq<usize>, sel: Seq<bool>, k: int) -> int decreases k { if k <= 0 { 0 } else { keptp(rv, sel, k - 1) + (if sel[rv[k - 1] as int] { 1int } else { 0int }) } }
pub proof fn lemma_keptp_mono(rv: Seq<usize>, sel: Seq<bool>, a: int, b: int)
    requires 0 <= a <= b,
    ensures 0 <= keptp(rv, sel, a) <= keptp(rv, sel, b), keptp(rv, sel, a) <= a, keptp(rv, sel, b) - keptp(rv, sel, a) <= b - a,
    decreases b,
{ if a < b { lemma_keptp_mono(rv, sel, a, b - 1); } else if a > 0 { lemma_keptp_mono(rv, sel, a - 1, a - 1); } }

// ---- set_entry ----
// p is the position of `row` in column `col`: rows before it are smaller, rows from it on are not
pub open spec fn entry_pos(A: CscMatrix<F>, row: int, col: int, p: int) -> bool {
    &&& A.colptr@[col] <= p <= A.colptr@[col + 1]
    &&& forall|k: int| A.colptr@[col] <= k < p ==> #[trigger] A.rowval@[k] < row
    &&& forall|k: int| p <= k < A.colptr@[col + 1] ==> #[trigger] A.rowval@[k] >= row
}
pub open spec fn entry_present(A: CscMatrix<F>, row: int, col: int, p: int) -> bool { p < A.colptr@[col + 1] && A.rowval@[p] == row }
// column pointers after one entry has been inserted into column col
pub open spec fn colptr_shifted(c0: Seq<usize>, c1: Seq<usize>, col: int) -> bool {
    c1.len() == c0.len() && forall|c: int| 0 <= c < c0.len() ==> #[trigger] c1[c] == c0[c] + (if c > col { 1int } else { 0int })
}
pub open spec fn set_entry_post(A0: CscMatrix<F>, A1: CscMatrix<F>, row: int, col: int, value: F, p: int) -> bool {
    &&& A1.m == A0.m && A1.n == A0.n
    &&& entry_present(A0, row, col, p) ==> A1.colptr@ == A0.colptr@ && A1.rowval@ == A0.rowval@ && A1.nzval@ == A0.nzval@.update(p, value)
    &&& !entry_present(A0, row, col, p) && f_eq(value, f_zero()) ==> A1 == A0
    &&& !entry_present(A0, row, col, p) && !f_eq(value, f_zero()) ==> {
            &&& A1.rowval@ == A0.rowval@.insert(p, row as usize) && A1.nzval@ == A0.nzval@.insert(p, value)
            &&& colptr_shifted(A0.colptr@, A1.colptr@, col) }
}

pub open spec fn cnt_lt(s: Seq<usize>, k: int, r: int) -> int decreases k { if k <= 0 { 0 } else { cnt_lt(s, k - 1, r) + (if s[k - 1] < r { 1int } else { 0int }) } }
pub proof fn lemma_cnt_lt_sorted(s: Seq<usize>, k: int, r: int)
    requires 0 <= k <= s.len(), nondecreasing(s),
    ensures 0 <= cnt_lt(s, k, r) <= k, forall|i: int| 0 <= i < k ==> (#[trigger] s[i] < r <==> i < cnt_lt(s, k, r)),
    decreases k,
{
    if k > 0 {
        lemma_cnt_lt_sorted(s, k - 1, r);
        if s[k - 1] < r { if k - 1 > 0 { assert(s[k - 2] <= s[k - 1]); assert(s[k - 2] < r <==> k - 2 < cnt_lt(s, k - 1, r)); } }
    }
}
pub proof fn lemma_entry_pos_exists(A: CscMatrix<F>, row: int, col: int)
    requires canonical(A), 0 <= col < A.n, A.colptr@[col] <= A.colptr@[col + 1] <= A.rowval@.len(),
    ensures entry_pos(A, row, col, A.colptr@[col] + cnt_lt(col_rows(A, col), col_rows(A, col).len() as int, row)),
{
    let sq = col_rows(A, col); let lo = A.colptr@[col] as int;
    lemma_col_sorted(A, col);
    lemma_cnt_lt_sorted(sq, sq.len() as int, row);
    let p = lo + cnt_lt(sq, sq.len() as int, row);
    assert forall|k: int| lo <= k < p implies #[trigger] A.rowval@[k] < row by { assert(sq[k - lo] == A.rowval@[k]); }
    assert forall|k: int| p <= k < A.colptr@[col + 1] implies #[trigger] A.rowval@[k] >= row by { assert(sq[k - lo] == A.rowval@[k]); }
}
pub proof fn lemma_entry_pos_unique(A: CscMatrix<F>, row: int, col: int, p1: int, p2: int)
    requires entry_pos(A, row, col, p1), entry_pos(A, row, col, p2),
    ensures p1 == p2,
{
    if p1 < p2 { assert(A.rowval@[p1] >= row); assert(A.rowval@[p1] < row); }
    if p2 < p1 { assert(A.rowval@[p2] >= row); assert(A.rowval@[p2] < row); }
}
// the column counts sum back to the column pointers (telescoping), with one more entry in column col
pub proof fn lemma_counts_sum(c0: Seq<usize>, cnt: Seq<usize>, n: int, col: int, c: int)
    requires
        c0.len() == n + 1, cnt.len() == n + 1, 0 <= col < n, 0 <= c <= n + 1, c0[0] == 0,
        forall|i: int| 0 <= i < n ==> c0[i] <= #[trigger] c0[i + 1],
        forall|i: int| 0 <= i < n ==> #[trigger] cnt[i] == c0[i + 1] - c0[i] + (if i == col { 1int } else { 0int }),
        cnt[n] == 0,
    ensures sum_upto(cnt, c) == (if c <= n { c0[c] as int } else { c0[n] as int }) + (if c > col { 1int } else { 0int }),
    decreases c,
{
    if c > 0 { lemma_counts_sum(c0, cnt, n, col, c - 1); }
}

pub open spec fn nonzero(x: F) -> bool { !f_eq(x, f_zero()) }
// number of stored entries among the first k whose value is not zero = the slot entry k moves to
pub open spec fn kept(nz: Seq<F>, k: int) -> int decreases k { if k <= 0 { 0 } else { kept(nz, k - 1) + (if nonzero(nz[k - 1]) { 1int } else { 0int }) } }
pub proof fn lemma_kept_mono(nz: Seq<F>, a: int, b: int)
    requires 0 <= a <= b,
    ensures 0 <= kept(nz, a) <= kept(nz, b), kept(nz, a) <= a, kept(nz, b) - kept(nz, a) <= b - a,
    decreases b,
{
    if a < b { lemma_kept_mono(nz, a, b - 1); } else if a > 0 { lemma_kept_mono(nz, a - 1, a - 1); }
}

impl CscMatrix<F> {
//@fn file=src/algebra/csc/core.rs in="ShapedMatrix for CscMatrix<T>" name=ncols rules=R1 ret=r
//@contract
    ensures r == self.n
//@end

//@fn file=src/algebra/csc/core.rs in="impl<T> CscMatrix<T>" name=dropzeros rules=R1
//@contract
    requires colptr_wf(*old(self)),
    ensures
        final(self).m == old(self).m, final(self).n == old(self).n, colptr_wf(*final(self)),
        // C16 (zero dropping): the stored entries whose value is nonzero survive, in order, each in its own column:
        // entry k moves to slot kept(k); every column pointer moves with the entries before it
        final(self).nzval@.len() == kept(old(self).nzval@, old(self).nzval@.len() as int),
        forall|c: int| 0 <= c <= old(self).n ==> #[trigger] final(self).colptr@[c] == kept(old(self).nzval@, old(self).colptr@[c] as int),
        forall|k: int| 0 <= k < old(self).nzval@.len() && nonzero(old(self).nzval@[k]) ==> {
            let d = kept(old(self).nzval@, k);
            0 <= d < final(self).nzval@.len() && final(self).nzval@[d] == #[trigger] old(self).nzval@[k] && final(self).rowval@[d] == old(self).rowval@[k] },
//@pre
        proof { assert(self.colptr@.len() == self.colptr.len()); assert(self.rowval@.len() == self.rowval.len()); }
        let ghost nz0 = self.nzval@;
        let ghost rv0 = self.rowval@;
        let ghost cp0 = self.colptr@;
        let ghost nnz = self.nzval@.len() as int;
//@iter 1
it0
//@loop 1
        invariant
            it0.seq().len() == self.n, range_from(it0.seq(), 0), self.n == old(self).n, self.m == old(self).m,
            nz0 == old(self).nzval@, rv0 == old(self).rowval@, cp0 == old(self).colptr@, nnz == nz0.len(), nnz <= usize::MAX, colptr_wf(*old(self)),
            self.colptr@.len() == cp0.len(), self.nzval@.len() == nnz, self.rowval@.len() == nnz,
            first == cp0[it0.index@ as int], writeidx == kept(nz0, first as int), writeidx <= first,
            forall|c: int| 0 <= c <= it0.index@ ==> #[trigger] self.colptr@[c] == kept(nz0, cp0[c] as int),
            forall|c: int| it0.index@ < c <= self.n ==> #[trigger] self.colptr@[c] == cp0[c],
            forall|k: int| first <= k < nnz ==> #[trigger] self.nzval@[k] == nz0[k],
            forall|k: int| first <= k < nnz ==> #[trigger] self.rowval@[k] == rv0[k],
            forall|k: int| 0 <= k < first && nonzero(nz0[k]) ==> self.nzval@[kept(nz0, k)] == #[trigger] nz0[k] && self.rowval@[kept(nz0, k)] == rv0[k],
//@body_start 1
            let ghost gc = col as int;
            proof { assert(cp0[gc] <= cp0[gc + 1] <= cp0[self.n as int]); }
//@iter 2
it1
//@loop 2
                invariant
                    it1.seq().len() == last - first, range_from(it1.seq(), first as int), first <= last, last == cp0[gc + 1], last <= nnz, 0 <= gc < self.n,
                    self.n == old(self).n, self.m == old(self).m, nnz == nz0.len(), nnz <= usize::MAX,
                    self.colptr@.len() == cp0.len(), self.nzval@.len() == nnz, self.rowval@.len() == nnz,
                    writeidx == kept(nz0, first + it1.index@), writeidx <= first + it1.index@,
                    forall|c: int| 0 <= c <= gc ==> #[trigger] self.colptr@[c] == kept(nz0, cp0[c] as int),
                    forall|c: int| gc < c <= self.n ==> #[trigger] self.colptr@[c] == cp0[c],
                    forall|k: int| first + it1.index@ <= k < nnz ==> #[trigger] self.nzval@[k] == nz0[k],
                    forall|k: int| first + it1.index@ <= k < nnz ==> #[trigger] self.rowval@[k] == rv0[k],
                    forall|k: int| 0 <= k < first + it1.index@ && nonzero(nz0[k]) ==> self.nzval@[kept(nz0, k)] == #[trigger] nz0[k] && self.rowval@[kept(nz0, k)] == rv0[k],
//@body_start 2
                let ghost gr = readidx as int;
                let ghost nzv1 = self.nzval@;
                let ghost rv1 = self.rowval@;
                proof { assert(kept(nz0, gr + 1) == kept(nz0, gr) + (if nonzero(nz0[gr]) { 1int } else { 0int })); }
//@body_end 2
                proof {
                    assert forall|k: int| 0 <= k < gr + 1 && nonzero(nz0[k]) implies self.nzval@[kept(nz0, k)] == #[trigger] nz0[k] && self.rowval@[kept(nz0, k)] == rv0[k] by {
                        if k < gr {
                            lemma_kept_mono(nz0, k + 1, gr);
                            assert(kept(nz0, k + 1) == kept(nz0, k) + 1);
                            assert(nzv1[kept(nz0, k)] == nz0[k]);
                        }
                    }
                }
//@post
        proof {
            lemma_kept_mono(nz0, 0, nnz);
            assert forall|a: int, b: int| 0 <= a <= b <= self.n implies self.colptr@[a] <= self.colptr@[b] by {
                assert(cp0[a] <= cp0[b]);
                lemma_kept_mono(nz0, cp0[a] as int, cp0[b] as int);
            }
            assert forall|k: int| 0 <= k < nnz && nonzero(nz0[k]) implies ({
                let d = kept(nz0, k);
                0 <= d < self.nzval@.len() && self.nzval@[d] == #[trigger] nz0[k] && self.rowval@[d] == rv0[k] }) by {
                lemma_kept_mono(nz0, k + 1, nnz);
                lemma_kept_mono(nz0, 0, k);
                assert(kept(nz0, k + 1) == kept(nz0, k) + 1);
            }
        }
//@end
//@fn file=src/algebra/csc/core.rs in="impl<T> CscMatrix<T>" name=check_dimensions rules=R1,R21 ret=r
//@contract
    ensures
        r is Ok <==> dims_ok(*self) && colptr_mono(*self),
        r matches Err(e) ==> (e == SparseFormatError::IncompatibleDimension <==> !dims_ok(*self)) && (e == SparseFormatError::BadColptr <==> dims_ok(*self)),
//@pre
        proof { assert(self.rowval@.len() == self.rowval.len()); assert(self.colptr@.len() == self.colptr.len()); }
//@iter 1
it1
//@loop 1
            invariant
                r21_s1@ == self.colptr@, it1.seq().len() == r21_s1@.len() - 1, range_from(it1.seq(), 1), r21_s1@.len() >= 1,
                !r21_k1 ==> forall|i: int| 0 <= i < it1.index@ ==> #[trigger] self.colptr@[i] <= self.colptr@[i + 1],
                r21_k1 ==> exists|i: int| 0 <= i < self.colptr@.len() - 1 && #[trigger] self.colptr@[i] > self.colptr@[i + 1],
//@end

//@fn file=src/algebra/csc/core.rs in="impl<T> CscMatrix<T>" name=check_format rules=R1,R21 ret=r
//@contract
    ensures
        // C16: check_format accepts exactly the canonical encodings
        r is Ok <==> canonical(*self),
        r matches Err(e) ==> (e == SparseFormatError::BadRowval <==> dims_ok(*self) && colptr_mono(*self)),
//@before "for col in 0..self.n"
        proof {
            assert(self.rowval@.len() == self.rowval.len());
        }
//@iter 1
it0
//@loop 1
        invariant
            it0.seq().len() == self.n, range_from(it0.seq(), 0), dims_ok(*self), colptr_mono(*self), self.rowval@.len() <= usize::MAX,
            forall|c: int, k: int| c < it0.index@ && #[trigger] in_col(*self, k, c) && k + 1 < self.colptr@[c + 1] ==> self.rowval@[k] < self.rowval@[k + 1],
//@body_start 1
            let ghost gc = col as int;
            proof { lemma_mono_ab(self.colptr@, gc + 1, self.n as int); assert(self.colptr@[gc] <= self.colptr@[gc + 1] <= self.colptr@[self.n as int]); }
            let ghost lo = self.colptr@[gc] as int;
            let ghost hi = self.colptr@[gc + 1] as int;
//@iter 2
it1
//@loop 2
                invariant
                    r21_s1@ == self.rowval@.subrange(lo, hi), 0 <= lo <= hi <= self.rowval@.len(),
                    it1.seq().len() == (if hi - lo >= 1 { hi - lo - 1 } else { 0 }), range_from(it1.seq(), 1),
                    !r21_k1 ==> forall|i: int| 0 <= i < it1.index@ ==> #[trigger] self.rowval@[lo + i] < self.rowval@[lo + i + 1],
                    r21_k1 ==> exists|i: int| 0 <= i < hi - lo - 1 && #[trigger] self.rowval@[lo + i] >= self.rowval@[lo + i + 1],
//@body_start 2
                let ghost gi = r21_i1 as int;
                let ghost k0 = r21_k1;
                proof {
                    assert(r21_s1@[gi - 1] == self.rowval@[lo + gi - 1]);
                    assert(r21_s1@[gi] == self.rowval@[lo + gi]);
                }
//@body_end 2
                proof {
                    if r21_k1 && !k0 { assert(self.rowval@[lo + (gi - 1)] >= self.rowval@[lo + (gi - 1) + 1]); }
                }
//@before "return Err(SparseFormatError::BadRowval);" #1
                proof {
                    let i = choose|i: int| 0 <= i < hi - lo - 1 && #[trigger] self.rowval@[lo + i] >= self.rowval@[lo + i + 1];
                    assert(in_col(*self, lo + i, gc));
                }
//@body_end 1
            proof {
                assert forall|k: int| #[trigger] in_col(*self, k, gc) && k + 1 < self.colptr@[gc + 1] implies self.rowval@[k] < self.rowval@[k + 1] by {
                    assert(self.rowval@[lo + (k - lo)] < self.rowval@[lo + (k - lo) + 1]);
                }
            }
//@iter 3
it2
//@loop 3
            invariant
                it2.seq().len() == self.rowval@.len(), (forall|i: int| 0 <= i < self.rowval@.len() ==> *(#[trigger] it2.seq()[i]) == self.rowval@[i]),
                r21_k2 ==> forall|i: int| 0 <= i < it2.index@ ==> #[trigger] self.rowval@[i] < self.m,
                !r21_k2 ==> exists|i: int| 0 <= i < self.rowval@.len() && #[trigger] self.rowval@[i] >= self.m,
//@end


//@fn file=src/algebra/csc/core.rs in="impl<T> CscMatrix<T>" name=to_triu rules=R1,R6,R22,R15:rowval|nzval ret=r
//@contract
    requires colptr_wf(*self), self.m == self.n, self.n < usize::MAX,
    ensures
        // C16 (upper-triangle extraction): column c of the result is the leading triu_cnt(c) entries of column c
        // (lemma_to_triu_dense: for sorted columns these are exactly the entries on or above the diagonal)
        to_triu_post(*self, r),
//@pre
        proof { assert(self.rowval@.len() == self.rowval.len()); assert(self.colptr@.len() == self.colptr.len()); lemma_triu_cum_le(*self, 0); }
//@iter 1
it0
//@loop 1
        invariant
            it0.seq().len() == n, range_from(it0.seq(), 0), n == self.n, m == self.m, colptr_wf(*self), self.n < usize::MAX, self.rowval@.len() <= usize::MAX,
            colptr@.len() == n + 1, colptr@[0] == 0,
            nnz == triu_cum(*self, it0.index@ as int),
            forall|c: int| 0 <= c < it0.index@ ==> #[trigger] colptr@[c + 1] == triu_cnt(*self, c),
//@body_start 1
            let ghost gc = col as int;
            proof { lemma_triu_cum_le(*self, gc); lemma_triu_cum_le(*self, gc + 1); assert(self.colptr@[gc] <= self.colptr@[gc + 1] <= self.colptr@[self.n as int]); }
//@iter 2
it1
//@loop 2
                invariant
                    rows@ == col_rows(*self, gc), col == gc,
                    it1.seq().len() == rows@.len(), (forall|i: int| 0 <= i < rows@.len() ==> *(#[trigger] it1.seq()[i]) == rows@[i]),
                    r22_n1 == cnt_le(rows@, it1.index@ as int, gc), r22_n1 <= it1.index@, rows@.len() <= usize::MAX,
//@body_start 2
                proof { assert(cnt_le(rows@, it1.index@ + 1, gc) == cnt_le(rows@, it1.index@ as int, gc) + (if rows@[it1.index@ as int] <= gc { 1int } else { 0int })); }
//@before "let mut rowval = vec![0; nnz];"
        proof { lemma_triu_cum_le(*self, n as int); }
//@iter 3
it2
//@loop 3
        invariant
            it2.seq().len() == n, range_from(it2.seq(), 0), n == self.n, m == self.m, colptr_wf(*self), self.n < usize::MAX, self.rowval@.len() <= usize::MAX,
            colptr@.len() == n + 1, rowval@.len() == nnz, nzval@.len() == nnz, nnz == triu_cum(*self, n as int),
            forall|c: int| 0 <= c <= it2.index@ ==> #[trigger] colptr@[c] == triu_cum(*self, c),
            forall|c: int| it2.index@ <= c < n ==> #[trigger] colptr@[c + 1] == triu_cnt(*self, c),
            forall|c: int, i: int| #[trigger] tslot(c, i) && 0 <= c < it2.index@ && 0 <= i < triu_cnt(*self, c) ==> rowval@[triu_cum(*self, c) + i] == self.rowval@[self.colptr@[c] + i],
            forall|c: int, i: int| #[trigger] tslot(c, i) && 0 <= c < it2.index@ && 0 <= i < triu_cnt(*self, c) ==> nzval@[triu_cum(*self, c) + i] == self.nzval@[self.colptr@[c] + i],
//@body_start 3
            let ghost gc = col as int;
            let ghost rv1 = rowval@;
            let ghost nz1 = nzval@;
            proof {
                lemma_triu_cum_le(*self, gc); lemma_triu_cum_le(*self, gc + 1); lemma_triu_cum_mono(*self, gc + 1, n as int);
                assert(self.colptr@[gc] <= self.colptr@[gc + 1] <= self.colptr@[self.n as int]);
                assert(colptr@[gc + 1] == triu_cnt(*self, gc));
            }
//@body_end 3
            proof {
                assert forall|c: int, i: int| #[trigger] tslot(c, i) && 0 <= c < gc + 1 && 0 <= i < triu_cnt(*self, c) implies
                    rowval@[triu_cum(*self, c) + i] == self.rowval@[self.colptr@[c] + i]
                    && nzval@[triu_cum(*self, c) + i] == self.nzval@[self.colptr@[c] + i] by {
                    if c < gc {
                        lemma_triu_cum_mono(*self, c + 1, gc);
                        lemma_triu_cum_le(*self, c);
                        assert(triu_cum(*self, c + 1) == triu_cum(*self, c) + triu_cnt(*self, c));
                        assert(rv1[triu_cum(*self, c) + i] == self.rowval@[self.colptr@[c] + i]);
                        assert(rowval@[triu_cum(*self, c) + i] == rv1[triu_cum(*self, c) + i]);
                        assert(nzval@[triu_cum(*self, c) + i] == nz1[triu_cum(*self, c) + i]);
                    } else {
                        assert(rowval@[fdest + i] == self.rowval@[fsrc + i]);
                        assert(nzval@[fdest + i] == self.nzval@[fsrc + i]);
                    }
                }
            }
//@before "CscMatrix::new(m, n, colptr, rowval, nzval)"
        proof {
            assert forall|a: int, b: int| 0 <= a <= b <= n implies colptr@[a] <= colptr@[b] by { lemma_triu_cum_mono(*self, a, b); }
        }
//@end


//@fn file=src/algebra/csc/core.rs in="impl<T> CscMatrix<T>" name=get_entry rules=R1,R23 ret=r
//@contract
    requires canonical(*self), idx.0 < self.m, idx.1 < self.n,
    ensures
        // C16 (entry lookup): Some(v) iff (row, col) is a stored position, v its value
        match r {
            Some(v) => exists|k: int| in_col(*self, k, idx.1 as int) && self.rowval@[k] == idx.0 && v == #[trigger] self.nzval@[k],
            None => forall|k: int| #[trigger] in_col(*self, k, idx.1 as int) ==> self.rowval@[k] != idx.0,
        },
//@pre
        proof { assert(self.rowval@.len() == self.rowval.len()); }
        let ghost gc = idx.1 as int;
        proof { lemma_mono_ab(self.colptr@, gc + 1, self.n as int); assert(self.colptr@[gc] <= self.colptr@[gc + 1] <= self.colptr@[self.n as int]); }
//@before "match usize_binary_search("
        proof {
            lemma_col_sorted(*self, gc);
            assert(rows_in_this_column@ == col_rows(*self, gc));
        }
//@post
        proof {
            let lo = self.colptr@[gc] as int;
            if r_v is None {
                assert forall|k: int| #[trigger] in_col(*self, k, gc) implies self.rowval@[k] != idx.0 by {
                    assert(col_rows(*self, gc)[k - lo] == self.rowval@[k]);
                }
            }
        }
//@end


//@fn file=src/algebra/csc/core.rs in="impl<T> CscMatrix<T>" name=index_to_coord rules=R1,R23 ret=r
//@contract
    requires canonical(*self), idx < self.colptr@[self.n as int],
    ensures
        // C16: the coordinates of storage slot idx
        r.0 == self.rowval@[idx as int], in_col(*self, idx as int, r.1 as int),
//@pre
        proof { lemma_mono_all(self.colptr@); assert(self.colptr@.len() == self.colptr.len()); }
//@end

//@include units/inc/csc_alloc.rs

//@fn file=src/algebra/csc/core.rs in="impl<T> CscMatrix<T>" name=select_rows rules=R1,R6,R22,zipidx:1=mi ret=r
//@contract
    requires colptr_wf(*self), rows_in_range(*self), rowidx@.len() == self.m, self.n < usize::MAX,
    ensures
        // C16 (row selection): the result has the selected rows, renumbered by rank, and the same columns;
        // an entry in a selected row moves to slot keptp(k) with its value, entries of other rows disappear
        r.m == rank(rowidx@, self.m as int), r.n == self.n, colptr_wf(r),
        forall|c: int| 0 <= c <= self.n ==> #[trigger] r.colptr@[c] == keptp(self.rowval@, rowidx@, self.colptr@[c] as int),
        r.nzval@.len() == keptp(self.rowval@, rowidx@, self.rowval@.len() as int), r.rowval@.len() == r.nzval@.len(),
        forall|k: int| 0 <= k < self.rowval@.len() && rowidx@[self.rowval@[k] as int] ==> r.nzval@[keptp(self.rowval@, rowidx@, k)] == #[trigger] self.nzval@[k],
        forall|k: int| 0 <= k < self.rowval@.len() && rowidx@[#[trigger] self.rowval@[k] as int] ==> r.rowval@[keptp(self.rowval@, rowidx@, k)] == rank(rowidx@, self.rowval@[k] as int),
//@pre
        proof { assert(self.rowval@.len() == self.rowval.len()); assert(self.colptr@.len() == self.colptr.len()); assert(rowidx@.len() == rowidx.len()); }
        let ghost sel = rowidx@;
        let ghost rv0 = self.rowval@;
        let ghost nnz = self.rowval@.len() as int;
//@iter 1
it0
//@loop 1
            invariant
                it0.seq().len() == r14_n1, range_from(it0.seq(), 0), r14_n1 == self.m, rridx@.len() == self.m, rowidx@.len() == self.m, sel == rowidx@,
                mred == rank(sel, it0.index@ as int), mred <= it0.index@,
                forall|q: int| 0 <= q < it0.index@ && sel[q] ==> #[trigger] rridx@[q] == rank(sel, q),
//@body_start 1
                proof { assert(rank(sel, it0.index@ + 1) == rank(sel, it0.index@ as int) + (if sel[it0.index@ as int] { 1int } else { 0int })); }
//@iter 2
it1
//@loop 2
            invariant
                it1.seq().len() == rv0.len(), (forall|i: int| 0 <= i < rv0.len() ==> *(#[trigger] it1.seq()[i]) == rv0[i]), rv0 == self.rowval@, sel == rowidx@,
                rows_in_range(*self), rowidx@.len() == self.m, rv0.len() <= usize::MAX,
                r22_n1 == keptp(rv0, sel, it1.index@ as int), r22_n1 <= it1.index@,
//@body_start 2
            proof {
                assert(keptp(rv0, sel, it1.index@ + 1) == keptp(rv0, sel, it1.index@ as int) + (if sel[rv0[it1.index@ as int] as int] { 1int } else { 0int }));
                assert(self.rowval@[it1.index@ as int] < self.m);
            }
//@iter 3
it2
//@loop 3
        invariant
            it2.seq().len() == self.n, range_from(it2.seq(), 0), colptr_wf(*self), rows_in_range(*self), rowidx@.len() == self.m, rridx@.len() == self.m, sel == rowidx@, rv0 == self.rowval@,
            nnz == rv0.len(), nnz <= usize::MAX, self.n < usize::MAX,
            Ared.n == self.n, Ared.m == mred, mred == rank(sel, self.m as int), Ared.colptr@.len() == self.n + 1, Ared.rowval@.len() == nzred, Ared.nzval@.len() == nzred, nzred == keptp(rv0, sel, nnz),
            forall|q: int| 0 <= q < self.m && sel[q] ==> #[trigger] rridx@[q] == rank(sel, q),
            ptrred == keptp(rv0, sel, self.colptr@[it2.index@ as int] as int),
            forall|c: int| 0 <= c < it2.index@ ==> #[trigger] Ared.colptr@[c] == keptp(rv0, sel, self.colptr@[c] as int),
            it2.index@ > 0 ==> Ared.colptr@[self.n as int] == ptrred,
            it2.index@ == 0 ==> Ared.colptr@[self.n as int] == nzred,
            forall|k: int| 0 <= k < self.colptr@[it2.index@ as int] && sel[rv0[k] as int] ==> Ared.nzval@[keptp(rv0, sel, k)] == #[trigger] self.nzval@[k],
            forall|k: int| 0 <= k < self.colptr@[it2.index@ as int] && sel[#[trigger] rv0[k] as int] ==> Ared.rowval@[keptp(rv0, sel, k)] == rank(sel, rv0[k] as int),
//@body_start 3
            let ghost gc = col as int;
            proof { assert(self.colptr@[gc] <= self.colptr@[gc + 1] <= self.colptr@[self.n as int]); }
//@iter 4
it3
//@loop 4
                invariant
                    0 <= gc < self.n, col == gc, it3.seq().len() == self.colptr@[gc + 1] - self.colptr@[gc], range_from(it3.seq(), self.colptr@[gc] as int),
                    self.colptr@[gc] <= self.colptr@[gc + 1] <= nnz,
                    colptr_wf(*self), rows_in_range(*self), rowidx@.len() == self.m, rridx@.len() == self.m, sel == rowidx@, rv0 == self.rowval@, nnz == rv0.len(), nnz <= usize::MAX,
                    Ared.n == self.n, Ared.m == mred, Ared.colptr@.len() == self.n + 1, Ared.rowval@.len() == nzred, Ared.nzval@.len() == nzred, nzred == keptp(rv0, sel, nnz),
                    forall|q: int| 0 <= q < self.m && sel[q] ==> #[trigger] rridx@[q] == rank(sel, q),
                    ptrred == keptp(rv0, sel, self.colptr@[gc] + it3.index@),
                    forall|c: int| 0 <= c <= gc ==> #[trigger] Ared.colptr@[c] == keptp(rv0, sel, self.colptr@[c] as int),
                    forall|k: int| 0 <= k < self.colptr@[gc] + it3.index@ && sel[rv0[k] as int] ==> Ared.nzval@[keptp(rv0, sel, k)] == #[trigger] self.nzval@[k],
                    forall|k: int| 0 <= k < self.colptr@[gc] + it3.index@ && sel[#[trigger] rv0[k] as int] ==> Ared.rowval@[keptp(rv0, sel, k)] == rank(sel, rv0[k] as int),
//@body_start 4
                let ghost gk = ptr as int;
                let ghost nz1 = Ared.nzval@;
                let ghost rv1 = Ared.rowval@;
                proof {
                    assert(keptp(rv0, sel, gk + 1) == keptp(rv0, sel, gk) + (if sel[rv0[gk] as int] { 1int } else { 0int }));
                    assert(self.rowval@[gk] < self.m);
                    lemma_keptp_mono(rv0, sel, gk + 1, nnz);
                }
//@body_end 4
                proof {
                    assert(gk == self.colptr@[gc] + it3.index@);
                    assert forall|k: int| 0 <= k < gk + 1 && sel[rv0[k] as int] implies Ared.nzval@[keptp(rv0, sel, k)] == #[trigger] self.nzval@[k] by {
                        if k < gk {
                            lemma_keptp_mono(rv0, sel, k + 1, gk);
                            assert(keptp(rv0, sel, k + 1) == keptp(rv0, sel, k) + 1);
                            assert(nz1[keptp(rv0, sel, k)] == self.nzval@[k]);
                        }
                    }
                    assert forall|k: int| 0 <= k < gk + 1 && sel[#[trigger] rv0[k] as int] implies Ared.rowval@[keptp(rv0, sel, k)] == rank(sel, rv0[k] as int) by {
                        if k < gk {
                            lemma_keptp_mono(rv0, sel, k + 1, gk);
                            assert(keptp(rv0, sel, k + 1) == keptp(rv0, sel, k) + 1);
                            assert(rv1[keptp(rv0, sel, k)] == rank(sel, rv0[k] as int));
                        }
                    }
                }
//@post
        proof {
            lemma_keptp_mono(rv0, sel, 0, nnz);
            assert forall|c: int| 0 <= c <= self.n implies #[trigger] r_v.colptr@[c] == keptp(rv0, sel, self.colptr@[c] as int) by { }
            assert forall|a: int, b: int| 0 <= a <= b <= self.n implies r_v.colptr@[a] <= r_v.colptr@[b] by {
                assert(self.colptr@[a] <= self.colptr@[b]);
                lemma_keptp_mono(rv0, sel, self.colptr@[a] as int, self.colptr@[b] as int);
            }
        }
//@end

//@include units/inc/csc_colcount_fns.rs

//@fn file=src/algebra/csc/core.rs in="impl<T> CscMatrix<T>" name=set_entry rules=R1,R23
//@contract
    requires canonical(*old(self)), idx.0 < old(self).m, idx.1 < old(self).n,
    ensures
        // C16 (entry write): exactly the addressed cell changes: an existing entry is overwritten (also by a zero), a
        // missing one is inserted in row order unless the value is zero; every other entry keeps its column, row and value
        exists|p: int| entry_pos(*old(self), idx.0 as int, idx.1 as int, p) && set_entry_post(*old(self), *final(self), idx.0 as int, idx.1 as int, value, p),
//@pre
        proof { assert(self.rowval@.len() == self.rowval.len()); assert(self.colptr@.len() == self.colptr.len()); }
        let ghost gc = idx.1 as int;
        let ghost gr = idx.0 as int;
        let ghost A0 = *self;
        proof { lemma_mono_ab(self.colptr@, gc + 1, self.n as int); assert(self.colptr@[gc] <= self.colptr@[gc + 1] <= self.colptr@[self.n as int]); }
        // the position of (row, col) in the old matrix, fixed before any statement runs (so that every exit can be judged against it)
        let ghost gp = A0.colptr@[gc] + cnt_lt(col_rows(A0, gc), col_rows(A0, gc).len() as int, gr);
        proof { lemma_entry_pos_exists(A0, gr, gc); }
//@before "let i = usize_partition_point_lt("
        proof {
            lemma_col_sorted(*self, gc);
            assert(rows_in_this_column@ == col_rows(*self, gc));
        }
//@after "let i = usize_partition_point_lt("
        proof {
            let gq = first as int + i as int;
            assert forall|k: int| A0.colptr@[gc] <= k < gq implies #[trigger] A0.rowval@[k] < gr by { assert(col_rows(A0, gc)[k - first] == A0.rowval@[k]); }
            assert forall|k: int| gq <= k < A0.colptr@[gc + 1] implies #[trigger] A0.rowval@[k] >= gr by { assert(col_rows(A0, gc)[k - first] == A0.rowval@[k]); }
            assert(entry_pos(A0, gr, gc, gq));
            lemma_entry_pos_unique(A0, gr, gc, gq, gp);
            if i < rows_in_this_column@.len() { assert(rows_in_this_column@[i as int] == A0.rowval@[gp]); }
        }
//@before "return;"
                proof { assert(set_entry_post(A0, *self, gr, gc, value, gp)); }
//@after "self.colptr_to_colcount();"
            let ghost cnt0 = self.colptr@;
            proof {
                assert(self.rowval@.len() == self.rowval.len());
                assert(self.rowval@.len() == A0.rowval@.len() + 1);
                assert(cnt0[gc] == A0.colptr@[gc + 1] - A0.colptr@[gc]);
            }
//@before "self.colcount_to_colptr();"
            let ghost cnt1 = self.colptr@;
            proof {
                assert(self.rowval@.len() == self.rowval.len());
                lemma_counts_sum(A0.colptr@, cnt1, self.n as int, gc, self.n + 1);
            }
//@after "self.colcount_to_colptr();"
            proof {
                assert forall|c: int| 0 <= c < A0.colptr@.len() implies #[trigger] self.colptr@[c] == A0.colptr@[c] + (if c > gc { 1int } else { 0int }) by {
                    lemma_counts_sum(A0.colptr@, cnt1, self.n as int, gc, c);
                }
                assert(set_entry_post(A0, *self, gr, gc, value, gp));
            }
//@after "self.nzval[first + i] = value;"
            proof { assert(self.nzval@ =~= A0.nzval@.update(gp, value)); assert(set_entry_post(A0, *self, gr, gc, value, gp)); }
//@end

//@fn file=src/algebra/csc/core.rs in="ShapedMatrix for CscMatrix<T>" name=is_square rules=R1 ret=r
//@contract
    ensures r == (self.m == self.n)
//@end

//@fn file=src/algebra/csc/core.rs in="impl<T> CscMatrix<T>" name=is_triu rules=R1,R21,R5 ret=r
//@contract
    requires colptr_wf(*self),
    ensures r == (forall|c: int, k: int| #[trigger] in_col(*self, k, c) ==> self.rowval@[k] <= c),
//@pre
        proof { assert(self.rowval@.len() == self.rowval.len()); }
//@iter 1
it0
//@loop 1
        invariant
            it0.seq().len() == self.n, range_from(it0.seq(), 0), colptr_wf(*self),
            forall|c: int, k: int| c < it0.index@ && #[trigger] in_col(*self, k, c) ==> self.rowval@[k] <= c,
//@body_start 1
            let ghost gc = col as int;
            proof { assert(self.colptr@[gc] <= self.colptr@[gc + 1] <= self.colptr@[self.n as int]); }
//@iter 2
it1
//@loop 2
                invariant
                    it1.seq().len() == rows@.len(), (forall|i: int| 0 <= i < rows@.len() ==> *(#[trigger] it1.seq()[i]) == rows@[i]), rows@ == self.rowval@.subrange(first as int, last as int), first == self.colptr@[gc], last == self.colptr@[gc + 1], col == gc, 0 <= gc < self.n,
                    !r21_k1 ==> forall|i: int| 0 <= i < it1.index@ ==> rows@[i] <= col,
                    r21_k1 ==> exists|i: int| 0 <= i < rows@.len() && rows@[i] > col,
//@before "return false;"
                proof {
                    let i = choose|i: int| 0 <= i < rows@.len() && rows@[i] > col;
                    assert(self.rowval@[first + i] == rows@[i]);
                    assert(in_col(*self, first + i, gc));
                }
//@body_end 1
            proof {
                assert forall|k: int| #[trigger] in_col(*self, k, gc) implies self.rowval@[k] <= gc by {
                    assert(rows@[k - first] == self.rowval@[k]);
                }
            }
//@end

}

// ---- QDLDL input validation (C12: "non-square, non-upper-triangular or empty-column inputs are reported as errors") ----
pub open spec fn is_upper(A: CscMatrix<F>) -> bool { forall|c: int, k: int| #[trigger] in_col(A, k, c) ==> A.rowval@[k] <= c }
pub open spec fn no_empty_col(A: CscMatrix<F>) -> bool { forall|c: int| 0 <= c < A.colptr@.len() - 1 ==> #[trigger] A.colptr@[c] < A.colptr@[c + 1] }
//@fn file=src/qdldl/qdldl.rs name=check_structure rules=R1,R21 ret=r
//@contract
    requires colptr_wf(*A),
    ensures
        r is Ok <==> (A.m == A.n && is_upper(*A) && no_empty_col(*A)),
        r matches Err(e) ==> {
            &&& (e == QDLDLError::IncompatibleDimension <==> A.m != A.n)
            &&& (e == QDLDLError::NotUpperTriangular <==> A.m == A.n && !is_upper(*A))
            &&& (e == QDLDLError::EmptyColumn <==> A.m == A.n && is_upper(*A) && !no_empty_col(*A)) },
//@iter 1
it
//@loop 1
        invariant
            r21_s1@ == A.colptr@, it.seq().len() == (if r21_s1@.len() >= 1 { r21_s1@.len() - 1 } else { 0 }), range_from(it.seq(), 1),
            r21_k1 ==> forall|i: int| 0 <= i < it.index@ ==> #[trigger] A.colptr@[i] < A.colptr@[i + 1],
            !r21_k1 ==> exists|i: int| 0 <= i < A.colptr@.len() - 1 && #[trigger] A.colptr@[i] >= A.colptr@[i + 1],
//@end
pub open spec fn range_from(sq: Seq<usize>, lo: int) -> bool { forall|k: int| 0 <= k < sq.len() ==> #[trigger] sq[k] == lo + k }
} // verus!
fn main() {}
