#![allow(dead_code)]
#[path = "/repo/src/solver/chordal/merge/disjoint_set_union.rs"]
mod dsu;
use dsu::DisjointSetUnion;
fn main() {
    let mut d = DisjointSetUnion::new(8);
    for (a, b) in [(0, 1), (2, 3), (1, 3), (4, 5), (6, 7), (5, 7), (3, 7)] {
        d.union(a, b);
    }
    // all eight elements have been merged into one set
    println!("in_same_set(0,7) = {}", d.in_same_set(0, 7));
    println!("in_same_set(7,0) = {}", d.in_same_set(7, 0));
}
