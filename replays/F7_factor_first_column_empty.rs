// F7 replay: an ordering that moves a column WITHOUT a stored diagonal entry to the front leaves column 0 of the permuted
// upper triangle empty; `_factor_inner` then takes D[0] = Ax[0] from another column.
use clarabel::algebra::*;
use clarabel::qdldl::*;

fn matrix() -> CscMatrix<f64> {
    // upper triangle of [[4,1,0],[1,0,2],[0,2,5]]  (no stored entry at (1,1); no empty column)
    CscMatrix::new(3, 3, vec![0, 1, 2, 4], vec![0, 0, 1, 2], vec![4., 1., 2., 5.])
}

#[test]
fn f7_zero_pivot_in_first_position_is_reported() {
    let a = matrix();
    let opts = QDLDLSettingsBuilder::default()
        .perm(vec![1, 0, 2])
        .regularize_enable(false)
        .build()
        .unwrap();
    // P A P' = [[0,1,2],[1,4,0],[2,0,5]]: the first pivot is an exact zero and regularisation is off
    let r = QDLDLFactorisation::<f64>::new(&a, Some(opts));
    match r {
        Err(_) => {}
        Ok(mut f) => {
            let b = vec![1., 2., 3.];
            let mut x = b.clone();
            f.solve(&mut x);
            // residual of the ORIGINAL system
            let r0 = 4. * x[0] + 1. * x[1] - b[0];
            let r1 = 1. * x[0] + 2. * x[2] - b[1];
            let r2 = 2. * x[1] + 5. * x[2] - b[2];
            panic!("factorisation accepted; D = {:?}; residual of the returned solve = ({r0:e}, {r1:e}, {r2:e})", f.D);
        }
    }
}
