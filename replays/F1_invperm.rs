use clarabel::algebra::*;
use clarabel::qdldl::*;
fn main() {
    // A = [4 1; 1 3] upper triangle
    let a = CscMatrix::new(2, 2, vec![0, 1, 3], vec![0, 0, 1], vec![4.0, 1.0, 3.0]);
    let opts = QDLDLSettingsBuilder::default().perm(vec![0, 0]).build().unwrap();
    match QDLDLFactorisation::<f64>::new(&a, Some(opts)) {
        Ok(mut f) => {
            let mut b = vec![1.0, 2.0];
            f.solve(&mut b);
            println!("accepted perm [0,0]; x = {:?}; residual = {:?}", b,
               [4.0*b[0]+1.0*b[1]-1.0, 1.0*b[0]+3.0*b[1]-2.0]);
        }
        Err(e) => println!("rejected: {e}"),
    }
}
