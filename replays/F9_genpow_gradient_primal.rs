// F9 replay.  APPEND to src/solver/core/cones/genpowcone.rs (the cone traits are crate-private).
// C14 "the primal gradient is the conjugate map (the dual gradient evaluated at minus the primal gradient returns minus the point)":
// before the fix `gradient_primal` scaled `data.r` (a vector left by the last update_dual_grad_H call: all zero on a fresh cone)
// instead of the tail r of s, so g(s) had a zero tail: observed  g(s) = [-0.862, -0.494, 0, 0],  dual gradient at -g(s) =
// [-1.856, -2.832, -0, -0]  instead of  -s = [-2, -3, -0.3, 0.4].
#[cfg(test)]
mod f9_replay {
    use super::*;
    #[test]
    fn f9_genpow_primal_gradient_is_the_conjugate_map() {
        let mut cone = GenPowerCone::<f64>::new(vec![0.6, 0.4], 2);
        let s = vec![2.0, 3.0, 0.3, -0.4];          // interior: 2^0.6 * 3^0.4 > |(0.3, -0.4)| = 0.5
        let mut g = vec![0.0; 4];
        cone.gradient_primal(&mut g, &s);
        let z: Vec<f64> = g.iter().map(|x| -x).collect();
        cone.update_dual_grad_H(&z);
        for i in 0..4 {
            assert!((cone.data.grad[i] + s[i]).abs() < 1e-8,
                "dual gradient at -g(s) is {:?}, expected -s = {:?}; g(s) = {:?}", cone.data.grad, s.iter().map(|x| -x).collect::<Vec<_>>(), g);
        }
    }
}
