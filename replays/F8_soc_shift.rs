#![allow(non_snake_case)]
// F8 replay (public API; put under tests/ of the crate): the interior shift used by symmetric_initialization leaves a
// second-order-cone vector OUTSIDE the cone when the scalar part is hugely negative: the margin s0 - |s1| is computed in
// floats (-1e17 - 5 == -1e17), the first shift brings s0 to 0, the second to the target 1, and (1, 3, 4) is not in the cone.
use clarabel::solver::traits::Variables;
use clarabel::{algebra::*, solver::*};

#[test]
fn f8_soc_vector_is_shifted_strictly_inside() {
    let P = CscMatrix::<f64>::zeros((1, 1));
    let c = vec![1.];
    let A = CscMatrix::from(&[[1.], [1.], [1.]]);
    let b = vec![1.; 3];
    let cones = vec![SecondOrderConeT(3)];
    let settings = DefaultSettingsBuilder::default().verbose(false).build().unwrap();
    let mut solver = DefaultSolver::new(&P, &c, &A, &b, &cones, settings);
    solver.variables.s.copy_from_slice(&[-1e17, 3.0, 4.0]);
    solver.variables.z.copy_from_slice(&[10.0, 1.0, 1.0]);
    solver.variables.symmetric_initialization(&mut solver.cones);
    let s = &solver.variables.s;
    let margin = s[0] - (s[1] * s[1] + s[2] * s[2]).sqrt();
    // observed on the pinned tree: s = [1.0, 3.0, 4.0], margin = -4
    assert!(margin > 0.0, "s = {:?} is not inside the second-order cone (s0 - |s1| = {})", s, margin);
}
