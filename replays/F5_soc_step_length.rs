
#[test]
fn f5_probe_soc_step_length_direction_on_boundary_of_minus_k() {
    // z = (1, 0) is strictly inside the second-order cone; dz = (-1, 1) lies on the boundary of -K
    let mut cone = SecondOrderCone::<f64>::new(2);
    let z = [1.0, 0.0];
    let dz = [-1.0, 1.0];
    let settings = crate::solver::core::CoreSettings::<f64>::default();
    let (az, _as) = cone.step_length(&dz, &dz, &z, &z, &settings, 1.0);
    let znew = [z[0] + az * dz[0], z[1] + az * dz[1]];
    println!("alpha = {az}, z + alpha*dz = {:?}, residual = {}", znew, znew[0] * znew[0] - znew[1] * znew[1]);
    assert!(znew[0] >= znew[1].abs(), "step of length {az} leaves the cone: {:?}", znew);
}
