// F6 (C04 / C12): a problem with no variables and no constraints (P, A 0x0, no cones) made DefaultSolver::new panic with
// "index out of bounds: the len is 0 but the index is 0" at src/qdldl/qdldl.rs (`D[0] = Ax[0]` in _factor_inner).
// Integration test: copy to tests/ and run `cargo test --offline --test F6_empty_problem`.  Fails before the fix, passes after.
use clarabel::algebra::*;
use clarabel::solver::*;
#[test]
fn empty_problem_constructs_and_solves() {
    let P = CscMatrix::<f64>::zeros((0, 0));
    let A = CscMatrix::<f64>::zeros((0, 0));
    let q: Vec<f64> = vec![];
    let b: Vec<f64> = vec![];
    let cones: Vec<SupportedConeT<f64>> = vec![];
    let mut solver = DefaultSolver::new(&P, &q, &A, &b, &cones, DefaultSettings::default());
    solver.solve();
    assert_eq!(solver.solution.status, SolverStatus::Solved);
    assert!(solver.solution.x.is_empty() && solver.solution.z.is_empty() && solver.solution.s.is_empty());
}
